import sys, types, jax, jax.numpy as jnp, numpy as np
from jax.extend.core import Primitive
from jax import core
from jax.interpreters import batching
import fedjax  # real deps

# --- UF client program primitives with batching rules (per-row application)
def mk(name, nin):
    p = Primitive(name)
    p.def_abstract_eval(lambda *a: core.ShapedArray(a[0].shape, a[0].dtype))
    def rule(args, dims):
        n = [a.shape[d] for a, d in zip(args, dims) if d is not None][0]
        rows = []
        for i in range(n):
            rows.append(p.bind(*[jnp.take(a, i, axis=d) if d is not None else a for a, d in zip(args, dims)]))
        return jnp.stack(rows), 0
    batching.primitive_batchers[p] = rule
    return p
uf_init = mk('uf_init', 2); uf_step = mk('uf_step', 2); uf_res = mk('uf_res', 2); uf_final = mk('uf_final', 2)
def client_init(shared, ci): return uf_init.bind(shared, ci)
def client_step(st, batch): return uf_step.bind(st, batch['x']), uf_res.bind(st, batch['x'])
def client_final(shared, st): return uf_final.bind(shared, st)

# --- load real for_each_client.py over a jax proxy with pmap/device_put_* models
class JaxProxy(types.ModuleType):
    def __init__(self, ndev):
        super().__init__('jax'); self._n = ndev
    def __getattr__(self, k): return getattr(jax, k)
    def local_devices(self): return list(range(self._n))
    def pmap(self, f=None, donate_argnums=None, **kw):
        if f is None: return lambda g: self.pmap(g)
        return jax.vmap(f)
    def device_put_sharded(self, xs, devices): return jax.tree_util.tree_map(lambda *a: jnp.stack(a), *xs)
    def device_put_replicated(self, x, devices): return jax.tree_util.tree_map(lambda a: jnp.stack([a]*len(devices)), x)
    def device_put(self, x, d=None): return x
def load(ndev):
    path = '/repo/fedjax/core/for_each_client.py'
    mod = types.ModuleType('fec_sym'); mod.__file__ = path; sys.modules['fec_sym'] = mod
    real = sys.modules['jax']; sys.modules['jax'] = JaxProxy(ndev)
    try: exec(compile(open(path).read(), path, 'exec'), mod.__dict__)
    finally: sys.modules['jax'] = real
    return mod
fec = load(2)
def run(X, shared, cis):
    with jax.disable_jit(), jax.ensure_compile_time_eval():
        fn = fec.ForEachClientPmapBackend()(client_init, client_step, client_final)
        clients = [(b'a', [{'x': X[0]}, {'x': X[1]}], cis[0]), (b'b', [{'x': X[2]}], cis[1]), (b'c', [], cis[2])]
        return [(o, r) for _, o, r in fn(shared, clients)], 
try:
    jp = jax.make_jaxpr(run)(jnp.ones((3,2)), jnp.ones(2), jnp.ones((3,2)))
    from collections import Counter
    print('OK', len(jp.jaxpr.eqns), Counter(e.primitive.name for e in jp.jaxpr.eqns))
except Exception as e:
    import traceback; traceback.print_exc()
