import os
os.environ['XLA_FLAGS']='--xla_force_host_platform_device_count=4'
import jax, jax.numpy as jnp, numpy as np
import fedjax
from fedjax.core import for_each_client as fec
print(jax.devices())

def client_init(shared, ci): return {'p': shared['p'] + ci, 'n': jnp.zeros(())}
def client_step(st, batch): 
    s = {'p': st['p'] * jnp.sum(batch['x']) , 'n': st['n'] + 1./jnp.sum(batch['x'])}
    return s, jnp.sum(batch['x'])
def client_final(shared, st): return st['p'] - shared['p'], st['n']

def run(backend, X, p, cis, disable):
    import contextlib
    ctx = jax.disable_jit() if disable else contextlib.nullcontext()
    with ctx, jax.ensure_compile_time_eval():
      with fec.for_each_client_backend(backend):
        fn = fec.for_each_client(client_init, client_step, client_final, with_step_result=True)
        clients = [(b'a', [{'x': X[0:2]}, {'x': X[2:4]}], cis[0]),
                   (b'b', [{'x': X[4:6]}], cis[1]),
                   (b'c', [], cis[2]), (b'd', [{'x': X[6:8]}], cis[3]), (b'e', [{'x': X[6:8]}], cis[4])]
        return [(o, r) for _, o, r in fn({"p": p}, clients)]
for backend, disable in [('jit', False), ('jit', True), ('debug', True), ('pmap', False), ('pmap', True)]:
    try:
        jp = jax.make_jaxpr(lambda X,p,c: run(backend, X, p, c, disable))(jnp.ones(8), jnp.ones(2), jnp.ones((5,2)))
        from collections import Counter
        print(backend, disable, 'OK eqns', len(jp.jaxpr.eqns), Counter(e.primitive.name for e in jp.jaxpr.eqns))
        for e in jp.jaxpr.eqns:
            if e.primitive.name in ('pjit','jit'):
                print('   pjit', e.params.get('name'), 'donated', e.params.get('donated_invars'))
            if 'pmap' in e.primitive.name:
                print('   pmap', e.params.get('name'), 'donated', e.params.get('donated_invars'), 'axis_size', e.params.get('axis_size'))
    except Exception as ex:
        import traceback
        print(backend, disable, 'FAIL', type(ex).__name__, str(ex)[:300])
