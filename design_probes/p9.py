import jax, jax.numpy as jnp, warnings
a = jnp.arange(4.)
f = jax.jit(lambda x: x)
g = jax.jit(lambda s, b: s + b, donate_argnums=0)
s = f(a)
print('ptr equal', s.unsafe_buffer_pointer() == a.unsafe_buffer_pointer())
out = g(s, jnp.ones(4))
print('s deleted', s.is_deleted(), 'a deleted', a.is_deleted())
try: print('a readable', a + 0)
except Exception as e: print('a unreadable', type(e).__name__, e)
# shared_input passed through client_init without copy, as in the jit backend if copy removed
def client_init(shared, ci): return {'params': shared, 'n': ci}
st = jax.jit(client_init)(a, jnp.zeros(()))
print('state ptr == a ptr', st['params'].unsafe_buffer_pointer() == a.unsafe_buffer_pointer())
step = jax.jit(lambda st, b: {'params': st['params'] - b, 'n': st['n'] + 1}, donate_argnums=0)
st2 = step(st, jnp.ones(4))
print('a deleted', a.is_deleted())
try: print('a readable', a + 0)
except Exception as e: print('a unreadable', type(e).__name__, str(e)[:100])
