import sys, types
import fedjax.core.dataclasses
import symnp
def load(path, name, extra=None):
    src = open(path).read()
    mod = types.ModuleType(name); mod.__file__ = path; sys.modules[name] = mod
    saved = {k: sys.modules.get(k) for k in ['numpy'] + list((extra or {}).keys())}
    sys.modules['numpy'] = symnp
    for k, v in (extra or {}).items(): sys.modules[k] = v
    try: exec(compile(src, path, 'exec'), mod.__dict__)
    finally:
        for k, v in saved.items():
            if v is None: sys.modules.pop(k, None)
            else: sys.modules[k] = v
    return mod
cd = load('/repo/fedjax/core/client_datasets.py', 'fedjax_sym.client_datasets')
pkg = types.ModuleType('fedjax.core'); 
import fedjax.core as realcore
class CorePkg(types.ModuleType):
    def __getattr__(self, k): return getattr(realcore, k)
cp = CorePkg('fedjax.core'); cp.client_datasets = cd
fdm = load('/repo/fedjax/core/federated_data.py', 'fedjax_sym.federated_data', {'fedjax.core': cp})
cp.federated_data = fdm
imm = load('/repo/fedjax/core/in_memory_federated_data.py', 'fedjax_sym.in_memory', {'fedjax.core': cp})
from typing import List, Optional

def slices(nclients: int, start: Optional[int], stop: Optional[int], start2: Optional[int], stop2: Optional[int]) -> bool:
    """
    pre: 1 <= nclients <= 3
    post: __return__
    """
    ids = [10, 20, 30][:nclients]; sizes = [1, 0, 2][:nclients]
    def inside0(i):
        return ((start is None or i >= start) and (stop is None or i < stop) and (start2 is None or i >= start2) and (stop2 is None or i < stop2))
    if not any(inside0(i) for i in ids) or not any(((start is None or i >= start) and (stop is None or i < stop)) for i in ids): return True
    data = {i: {'x': symnp.ndarray([i * 10 + j for j in range(s)])} for i, s in zip(ids, sizes)}
    fd = imm.InMemoryFederatedData(data)
    v = fd.slice(start, stop).slice(start2, stop2)
    def inside(i):
        return ((start is None or i >= start) and (stop is None or i < stop) and
                (start2 is None or i >= start2) and (stop2 is None or i < stop2))
    want = sorted(i for i in ids if inside(i))
    if list(v.client_ids()) != want: return False
    if v.num_clients() != len(want): return False
    got = [(cid, ds.raw_examples['x'].rows) for cid, ds in v.clients()]
    if got != [(i, data[i]['x'].rows) for i in want]: return False
    sub = fdm.SubsetFederatedData(fd, want)
    if list(sub.client_ids()) != want: return False
    return True
