import jax, jax.numpy as jnp, warnings
warnings.simplefilter('ignore')
a = jnp.arange(4.)
f = jax.jit(lambda x: x)          # forwards input
g = jax.jit(lambda s, b: s + b, donate_argnums=0)
s = f(a)
print('same object' , s is a)
out = g(s, jnp.ones(4))
print('a deleted after donating forwarded state:', a.is_deleted())
a2 = jnp.arange(4.)
s2 = jax.jit(lambda x: jnp.copy(x))(a2); g(s2, jnp.ones(4)); print('with copy, a2 deleted:', a2.is_deleted())
# the jaxpr view
def h(a):
    s = f(a); return g(s, jnp.ones(4)), a + 1
jp = jax.make_jaxpr(h)(a)
print(jp)
