import os, time, sys
import jax, jax.numpy as jnp, numpy as np, z3
from fractions import Fraction
import fedjax
from fedjax.algorithms import fed_avg
import symjx
from p1 import f, jp

X = symjx.symarr('X',(5,2)); y = symjx.symarr('y',(5,)); w = symjx.symarr('w',(2,))
t=time.time()
outs = symjx.eval_jaxpr(jp.jaxpr, jp.consts, X, y, w)
print('interp s', time.time()-t, [o.shape for o in outs])
new_w = outs[0]
# reference: definition of FedAvg with SGD(0.5) clients, SGD(1.0) server, weights = num examples
def ref_client(w, batches):
    w = list(w)
    for b in batches:
        g = [0,0]
        for i in b:
            r = X[i,0]*w[0] + X[i,1]*w[1] - y[i]
            for d in range(2): g[d] = g[d] + r*X[i,d]
        w = [w[d] - z3.RealVal('1/2') * g[d] / len(b) for d in range(2)]
    return w
# batches as the real ShuffleRepeatBatchView produces (concrete)
import numpy as np
def batches(n, seed=0):
    ds = fedjax.ClientDataset({'idx': np.arange(n)})
    return [list(b['idx']) for b in ds.shuffle_repeat_batch(batch_size=2, num_epochs=1, seed=0)]
ba = [[int(i) for i in b] for b in batches(3)]; bb = [[3+int(i) for i in b] for b in batches(2)]
print(ba, bb)
wa = ref_client(w, ba); wb = ref_client(w, bb)
ref = [w[d] - (3*(w[d]-wa[d]) + 2*(w[d]-wb[d]))/5 for d in range(2)]
s = z3.Solver()
s.add(z3.Or(*[symjx.zr(new_w[d]) != ref[d] for d in range(2)]))
t=time.time(); print(s.check(), 'solve s', time.time()-t)
# mutant: unweighted mean
ref2 = [w[d] - ((w[d]-wa[d]) + (w[d]-wb[d]))/2 for d in range(2)]
s = z3.Solver(); s.add(z3.Or(*[symjx.zr(new_w[d]) != ref2[d] for d in range(2)]))
t=time.time(); r=s.check(); print(r, 'solve s', time.time()-t)
if r==z3.sat: print(s.model())
