import os, time
os.environ.setdefault('XLA_FLAGS','--xla_force_host_platform_device_count=4')
import jax, jax.numpy as jnp, numpy as np
import fedjax
from fedjax.algorithms import fed_avg, mime

def make_round(X, y, w0):
    # datasets carry only concrete example indices; values are symbolic closures
    def per_example_loss(params, batch, rng):
        x = X[batch['idx']]; t = y[batch['idx']]
        pred = x @ params['w']
        return 0.5*(pred - t)**2
    grad_fn = fedjax.grad(per_example_loss)
    alg = fed_avg.federated_averaging(grad_fn, fedjax.optimizers.sgd(0.5), fedjax.optimizers.sgd(1.0),
        fedjax.ShuffleRepeatBatchHParams(batch_size=2, num_epochs=1, seed=0))
    clients = [(b'a', fedjax.ClientDataset({'idx': np.array([0,1,2])}), jax.random.PRNGKey(0)),
               (b'b', fedjax.ClientDataset({'idx': np.array([3,4])}), jax.random.PRNGKey(1)),
               (b'c', fedjax.ClientDataset({'idx': np.zeros([0],np.int64)}), jax.random.PRNGKey(2))]
    st = alg.init({'w': w0})
    st, diag = alg.apply(st, clients)
    return st.params, diag

def f(X, y, w0):
    with jax.disable_jit(), jax.ensure_compile_time_eval():
        return make_round(X, y, w0)

t=time.time()
jp = jax.make_jaxpr(f)(jnp.zeros((5,2)), jnp.zeros(5), jnp.zeros(2))
print('trace s', time.time()-t, 'eqns', len(jp.jaxpr.eqns))
from collections import Counter
print(Counter(e.primitive.name for e in jp.jaxpr.eqns))
print(str(jp)[:3000])
