import jax, jax.numpy as jnp, numpy as np
from collections import Counter
import fedjax
from fedjax.core import metrics as M
from fedjax.aggregators import compression, walsh_hadamard
def prims(jp, acc=None):
    acc = Counter() if acc is None else acc
    for e in jp.eqns:
        acc[e.primitive.name]+=1
        for v in e.params.values():
            if hasattr(v,'jaxpr'): prims(v.jaxpr, acc)
            elif hasattr(v,'eqns'): prims(v, acc)
    return acc
def tr(name, f, *args):
    def g(*a):
        with jax.disable_jit(), jax.ensure_compile_time_eval():
            return f(*a)
    try:
        jp = jax.make_jaxpr(g)(*args)
        print(name, dict(prims(jp.jaxpr)))
    except Exception as e:
        print(name, 'FAIL', type(e).__name__, str(e)[:200])
y = jnp.array(1); p = jnp.ones(3)
tr('acc', lambda y,p: M.Accuracy().evaluate_example({'y':y}, p), y, p)
tr('topk', lambda y,p: M.TopKAccuracy(2).evaluate_example({'y':y}, p), y, p)
tr('ce', lambda y,p: M.CrossEntropyLoss().evaluate_example({'y':y}, p), y, p)
tr('conf', lambda y,p: M.ConfusionMatrix(3).evaluate_example({'y':y}, p), y, p)
ys = jnp.array([1,0,2]); ps = jnp.ones((3,3))
tr('seqtopk', lambda y,p: M.SequenceTokenTopKAccuracy(2, logits_mask=(0.,0.,-jnp.inf)).evaluate_example({'y':y}, p), ys, ps)
tr('seqce', lambda y,p: M.SequenceTokenCrossEntropyLoss().evaluate_example({'y':y}, p), ys, ps)
tr('perdomain', lambda y,d,p: M.PerDomainMetric(M.Accuracy(),2).evaluate_example({'y':y,'domain_id':d}, p), y, jnp.array(0), p)
tr('evalbatch', lambda y,p,m: M.evaluate_batch(M.Accuracy(), {'y':y}, p, m), ys, ps, jnp.array([True,False,True]))
tr('usq', lambda v,k: compression.uniform_stochastic_quantize(v, 4, k), jnp.ones(3), jax.random.PRNGKey(0))
tr('tern', lambda v,k: compression.terngrad_quantize(v, k), jnp.ones(3), jax.random.PRNGKey(0))
tr('drive', lambda v: compression.drive_pytree({'a':v}), jnp.ones(4))
tr('wht', lambda v: walsh_hadamard.walsh_hadamard_transform(v, 2), jnp.ones(8))
tr('rot', lambda v,k: walsh_hadamard.structured_rotation(v,k), jnp.ones((3,)), jax.random.PRNGKey(0))
tr('clip', lambda v: fedjax.tree_util.tree_clip_by_global_norm({'a':v}, 1.0), jnp.ones(3))
tr('adam', lambda g,w: (lambda o: o.apply({'w':g}, o.init({'w':w}), {'w':w}))(fedjax.optimizers.adam(0.1)), jnp.ones(2), jnp.ones(2))
tr('eg', lambda w,l: fedjax.algorithms.agnostic_fed_avg.update_domain_weights(w,l,0.1,'eg'), jnp.ones(2), jnp.ones(2))
