"""Probe numpy model: arrays are python lists of rows (row = int id or tuple)."""
bool_ = 'bool'; int32 = 'int32'; int64='int64'; float32='float32'
class ndarray:
    def __init__(self, rows, dtype='int64', trailing=()):
        self.rows = list(rows); self.dtype = dtype; self.trailing = tuple(trailing)
    @property
    def shape(self): return (len(self.rows),) + self.trailing
    @property
    def size(self): return len(self.rows)
    def __len__(self): return len(self.rows)
    def __getitem__(self, idx):
        if isinstance(idx, slice): return ndarray(self.rows[idx], self.dtype, self.trailing)
        if isinstance(idx, ndarray): return ndarray([self.rows[i] for i in idx.rows], self.dtype, self.trailing)
        return self.rows[idx]
    def __setitem__(self, idx, val):
        if isinstance(idx, slice):
            vals = val.rows if isinstance(val, ndarray) else list(val)
            start, stop, step = idx.indices(len(self.rows))
            assert step == 1 and stop - start == len(vals), 'shape mismatch'
            self.rows[start:stop] = vals
        else: self.rows[idx] = val
    def __lt__(self, other): return ndarray([r < other for r in self.rows], 'bool')
def ones(shape, dtype='float64'):
    (n,) = shape; return ndarray([True if dtype=='bool' else 1 for _ in range(n)], dtype)
def zeros(shape, dtype='float64'):
    n = shape[0]; return ndarray([0 for _ in range(n)], dtype, shape[1:])
def arange(n, dtype='int64'): return ndarray(list(range(n)), dtype)
def concatenate(arrs, axis=0):
    rows = []
    for a in arrs: rows.extend(a.rows)
    return ndarray(rows, arrs[0].dtype, arrs[0].trailing)
class _Random:
    class RandomState:
        def __init__(self, seed=None): self.seed = seed
random = _Random()

TAPE = []
class _RS:
    def __init__(self, seed=None): self.seed = seed; self.pos = 0
    def _next(self, n):
        v = TAPE[self.pos] if self.pos < len(TAPE) else 0
        self.pos += 1
        return v % n
    def shuffle(self, buf):
        rows = buf.rows if isinstance(buf, ndarray) else buf
        for i in range(len(rows) - 1, 0, -1):
            j = self._next(i + 1)
            rows[i], rows[j] = rows[j], rows[i]
    def randint(self, n): return self._next(n)
random.RandomState = _RS
def _zeros_tuple(shape, dtype='float64'):
    n = shape[0] if isinstance(shape, (tuple, list)) else shape
    return ndarray([0 for _ in range(n)], dtype)
zeros = _zeros_tuple

PERMS = []
class _RS2:
    """shuffle(buf) := overwrite buf with the next harness-supplied permutation of the same length."""
    def __init__(self, seed=None): self.k = 0
    def shuffle(self, buf):
        rows = buf.rows if isinstance(buf, ndarray) else buf
        p = PERMS[self.k]; self.k += 1
        assert len(p) == len(rows)
        rows[:] = p
random.RandomState = _RS2
_old_getitem = ndarray.__getitem__
def _getitem(self, idx):
    if isinstance(idx, ndarray) and getattr(self, 'is_arange', False):
        return ndarray(list(idx.rows), self.dtype, self.trailing)
    return _old_getitem(self, idx)
ndarray.__getitem__ = _getitem
