import sys, types
import fedjax.core.dataclasses
import symnp
def load(path, name):
    src = open(path).read()
    mod = types.ModuleType(name); mod.__file__ = path; sys.modules[name] = mod
    real = sys.modules.get('numpy'); sys.modules['numpy'] = symnp
    try: exec(compile(src, path, 'exec'), mod.__dict__)
    finally: sys.modules['numpy'] = real
    return mod
import os
cd = load(os.environ.get('CD_PATH', '/repo/fedjax/core/client_datasets.py'), 'cd_sym')
from typing import List

def srb(n: int, batch_size: int, num_epochs: int, drop: bool, flat: List[int]) -> bool:
    """
    pre: 1 <= n <= 5
    pre: 1 <= batch_size <= 4
    pre: 1 <= num_epochs <= 2
    pre: len(flat) == 9 * n
    post: __return__
    """
    perms = [flat[i*n:(i+1)*n] for i in range(9)]
    symnp.PERMS = perms
    x = symnp.ndarray(list(range(n))); x.is_arange = True
    ds = cd.ClientDataset({'x': x})
    batches = list(ds.shuffle_repeat_batch(batch_size=batch_size, num_epochs=num_epochs, drop_remainder=drop, seed=0))
    total = n * num_epochs
    expect = total // batch_size if drop else (total + batch_size - 1) // batch_size
    if len(batches) != expect: return False
    stream = []
    for b in batches:
        if len(b['x'].rows) != batch_size: return False
        stream.extend(b['x'].rows)
    ref = list(flat)[:len(stream)]
    return stream == ref
