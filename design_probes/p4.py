import jax, jax.numpy as jnp, numpy as np
from jax._src import core as jcore_src
from jax._src.interpreters import partial_eval as pe
print([c.__name__ for c in pe.DynamicJaxprTracer.__mro__])
decisions = []; script = []
orig_bool = jcore_src.Tracer.__bool__
def my_bool(self):
    k = len(decisions)
    d = script[k] if k < len(script) else True
    decisions.append((self, d))
    return d
jcore_src.Tracer.__bool__ = my_bool
from fedjax.core import tree_util
def f(x, w):
    with jax.disable_jit(), jax.ensure_compile_time_eval():
        out = tree_util.tree_inverse_weight({'a': x}, w)
        conds = [t for t,_ in decisions]
        return out, conds
for sc in ([True],[False]):
    decisions.clear(); script[:] = sc
    jp = jax.make_jaxpr(f)(jnp.ones(2), jnp.ones(()))
    print(sc, jp)
# UF primitive
from jax.extend.core import Primitive
uf = Primitive('uf_grad'); uf.multiple_results = True
from jax import core
@uf.def_abstract_eval
def _(w, x, key): return [core.ShapedArray(w.shape, w.dtype)]
def grad_fn(params, batch, rng):
    return {'w': uf.bind(params['w'], batch['x'], rng)[0]}
def g(w, x):
    with jax.disable_jit(), jax.ensure_compile_time_eval():
        return grad_fn({'w': w}, {'x': x}, jax.random.PRNGKey(0))
print(jax.make_jaxpr(g)(jnp.ones(2), jnp.ones((3,2))))
def g2(w, x):
    return jax.jit(grad_fn)({'w': w}, {'x': x}, jax.random.PRNGKey(0))
print(jax.make_jaxpr(g2)(jnp.ones(2), jnp.ones((3,2))))
