import sys, types, importlib.util
import fedjax.core.dataclasses  # real deps first
import symnp
def load(path, name):
    src = open(path).read()
    mod = types.ModuleType(name); mod.__file__ = path; sys.modules[name] = mod
    real = sys.modules.get('numpy')
    sys.modules['numpy'] = symnp
    try: exec(compile(src, path, 'exec'), mod.__dict__)
    finally: sys.modules['numpy'] = real
    return mod
cd = load('/repo/fedjax/core/client_datasets.py', 'cd_sym')
from typing import List

def padded(vals: List[int], batch_size: int, buckets: int) -> bool:
    """
    pre: len(vals) <= 5
    pre: 1 <= batch_size <= 4
    pre: 1 <= buckets <= 3
    post: __return__
    """
    n = len(vals)
    ds = cd.ClientDataset({'x': symnp.ndarray(vals)})
    out = []
    batches = list(ds.padded_batch(batch_size=batch_size, num_batch_size_buckets=buckets))
    for i, b in enumerate(batches):
        mask = b[cd.EXAMPLE_MASK_KEY].rows; xs = b['x'].rows
        if len(mask) != len(xs): return False
        if i < len(batches) - 1 and len(xs) != batch_size: return False
        k = sum(1 for m in mask if m)
        if mask != [True]*k + [False]*(len(mask)-k): return False
        if any(x != 0 for x in xs[k:]): return False
        out.extend(xs[:k])
    if out != vals: return False
    if batches:
        last = len(batches[-1]['x'].rows)
        rem = n - (len(batches)-1)*batch_size
        c = batch_size; cands = []
        for _ in range(buckets): cands.append(c); c //= 2
        if last != min(c for c in cands if c >= rem): return False
    else:
        if n != 0: return False
    return True
