import sys, types
# avoid importing real tensorflow: fake module before fedjax.training import
import fsmodel
FS0 = fsmodel.FS()
fake_tf = types.ModuleType('tensorflow'); 
sys.modules.setdefault('tensorflow', fake_tf)
import fedjax
from fedjax.training import federated_experiment as fe, checkpoint as ck, logging as flog
from fedjax.core import serialization as ser, federated_algorithm
import jax.numpy as jnp

class Sampler:
    def __init__(self): self.r = 0
    def set_round_num(self, r): self.r = r
    def sample(self):
        out = [(b'c%d' % self.r, None, None)]; self.r += 1; return out
def algo():
    def init(): return ()
    def apply(state, clients): return state + (clients[0][0],), {}
    return federated_algorithm.FederatedAlgorithm(init, apply)
class _NoJnp:
    class _Z:
        def block_until_ready(self): return self
    def zeros(self, shape): return self._Z()
class _NoLog:
    def info(self, *a, **k): pass
fe.jnp = _NoJnp(); fe.logging = _NoLog(); ser.logging = _NoLog()
class Log:
    def __init__(self, d=None): pass
    def log(self, *a): pass

def run(fs, num_rounds, freq, keep):
    tf = fsmodel.FakeTF(fs)
    ck.tf = tf; ser.tf = tf; fe.tf = tf
    flog.Logger = Log; fe.fedjax_logging.Logger = Log
    cfg = fe.FederatedExperimentConfig('/r', num_rounds, freq, keep, 0)
    return fe.run_federated_experiment(algo(), (), Sampler(), cfg)

def resume(num_rounds: int, freq: int, keep: int, crash1: int) -> bool:
    """
    pre: 1 <= num_rounds <= 3
    pre: 0 <= freq <= 2
    pre: 1 <= keep <= 2
    pre: 0 <= crash1 <= 30
    post: __return__
    """
    ref = run(fsmodel.FS(), num_rounds, freq, keep)
    fs = fsmodel.FS(); fs.crash_at = crash1
    try:
        out = run(fs, num_rounds, freq, keep)
    except fsmodel.Crash:
        fs.crash_at = -1
        out = run(fs, num_rounds, freq, keep)
    return out == ref
