from fedjax.core.client_datasets import _pick_final_batch_size

def check_pick(data_size: int, batch_size: int, buckets: int) -> int:
    """
    pre: 0 <= data_size <= 40
    pre: 1 <= batch_size <= 16
    pre: 1 <= buckets <= 5
    post: _spec(data_size, batch_size, buckets, __return__)
    """
    return _pick_final_batch_size(data_size, batch_size, buckets)

def _spec(n, b, k, r):
    rem = n % b
    if rem == 0:
        return r == b
    # candidates: b halved 0..k-1 times
    cands = []
    c = b
    for _ in range(k):
        cands.append(c)
        c //= 2
    ok = [c for c in cands if c >= rem]
    return r == min(ok)
