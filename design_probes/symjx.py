"""Probe: jaxpr -> z3 (Real) interpreter with partial evaluation. Throwaway."""
import numpy as np, z3, jax, jax.numpy as jnp
from fractions import Fraction
from jax.extend import core as jcore

def is_sym(a):
    return isinstance(a, np.ndarray) and a.dtype == object

def lift(x):
    """concrete numpy -> object array of Fractions/ints/bools"""
    x = np.asarray(x)
    out = np.empty(x.shape, dtype=object)
    it = np.nditer(x, flags=['multi_index','zerosize_ok'])
    for v in it:
        v = v.item()
        if isinstance(v, bool): out[it.multi_index] = v
        elif isinstance(v, int): out[it.multi_index] = v
        else: out[it.multi_index] = simplest(v, x.dtype)
    return out

def simplest(v, dtype):
    if v == 0: return Fraction(0)
    ulp = abs(float(np.spacing(np.asarray(v, dtype=dtype if dtype.kind=='f' else np.float32))))
    lo, hi = Fraction(v) - Fraction(ulp)/2, Fraction(v) + Fraction(ulp)/2
    # simplest fraction in [lo,hi] via Stern-Brocot
    def sb(lo, hi):
        from math import floor
        fl = floor(lo)
        if fl == lo: return Fraction(fl)
        if fl + 1 <= hi: return Fraction(fl + 1)
        r = sb(1/(hi - fl), 1/(lo - fl))
        return fl + 1/r
    if lo > 0: return sb(lo, hi)
    if hi < 0: return -sb(-hi, -lo)
    return Fraction(0)

def zr(v):
    if isinstance(v, z3.ExprRef): return v
    if isinstance(v, bool): return z3.BoolVal(v)
    if isinstance(v, int): return z3.IntVal(v)
    if isinstance(v, Fraction): return z3.RealVal(str(v))
    raise TypeError(type(v))

def ew(fn, *arrs):
    arrs = np.broadcast_arrays(*arrs)
    out = np.empty(arrs[0].shape, dtype=object)
    for idx in np.ndindex(*arrs[0].shape):
        out[idx] = fn(*[a[idx] for a in arrs])
    return out

def s_add(a,b):
    if not isinstance(a, z3.ExprRef) and not isinstance(b, z3.ExprRef): return a+b
    if not isinstance(a, z3.ExprRef) and a == 0: return b
    if not isinstance(b, z3.ExprRef) and b == 0: return a
    return zr(a)+zr(b)
def s_sub(a,b):
    if not isinstance(a, z3.ExprRef) and not isinstance(b, z3.ExprRef): return a-b
    if not isinstance(b, z3.ExprRef) and b == 0: return a
    return zr(a)-zr(b)
def s_mul(a,b):
    if not isinstance(a, z3.ExprRef) and not isinstance(b, z3.ExprRef): return a*b
    for u,v in ((a,b),(b,a)):
        if not isinstance(u, z3.ExprRef):
            if u == 0: return Fraction(0)
            if u == 1: return v
    return zr(a)*zr(b)
def s_div(a,b):
    if not isinstance(a, z3.ExprRef) and not isinstance(b, z3.ExprRef): return Fraction(a)/Fraction(b)
    return zr(a)/zr(b)

SQRT = z3.Function('sqrt', z3.RealSort(), z3.RealSort())

def index_track(prim, params, operand_pos, invals):
    """structural primitive: run real primitive on element ids"""
    op = invals[operand_pos]
    ids = np.arange(op.size, dtype=np.int32).reshape(op.shape)
    args = list(invals); args[operand_pos] = ids
    args = [jnp.asarray(a) if not is_sym(a) else a for a in args]
    out_ids = np.asarray(prim.bind(*args, **params))
    flat = op.reshape(-1)
    out = np.empty(out_ids.shape, dtype=object)
    for idx in np.ndindex(*out_ids.shape):
        out[idx] = flat[out_ids[idx]]
    return out

def dot_general(a, b, dimension_numbers, **_):
    (ca, cb), (ba, bb) = dimension_numbers
    assert not ba and not bb
    a = a if is_sym(a) else lift(a); b = b if is_sym(b) else lift(b)
    fa = [i for i in range(a.ndim) if i not in ca]
    fb = [i for i in range(b.ndim) if i not in cb]
    at = a.transpose(fa + list(ca)); bt = b.transpose(list(cb) + fb)
    cshape = at.shape[len(fa):]
    out = np.empty(at.shape[:len(fa)] + bt.shape[len(cb):], dtype=object)
    for i in np.ndindex(*at.shape[:len(fa)]):
        for j in np.ndindex(*bt.shape[len(cb):]):
            acc = Fraction(0)
            for k in np.ndindex(*cshape):
                acc = s_add(acc, s_mul(at[i+k], bt[k+j]))
            out[i+j] = acc
    return out

def eval_jaxpr(jaxpr, consts, *args):
    env = {}
    def read(v):
        if isinstance(v, jcore.Literal): return np.asarray(v.val)
        return env[v]
    for v, c in zip(jaxpr.constvars, consts): env[v] = np.asarray(c)
    for v, a in zip(jaxpr.invars, args): env[v] = a
    for eqn in jaxpr.eqns:
        invals = [read(v) for v in eqn.invars]
        p = eqn.primitive.name
        if not any(is_sym(a) for a in invals):
            out = eqn.primitive.bind(*[jnp.asarray(a) for a in invals], **eqn.params)
            outs = out if eqn.primitive.multiple_results else [out]
            outs = [np.asarray(o) for o in outs]
        else:
            L = [a if is_sym(a) else lift(a) for a in invals]
            if p in ('copy', 'copy_p', 'stop_gradient'): outs = [L[0]]
            elif p == 'add': outs = [ew(s_add, *L)]
            elif p == 'sub': outs = [ew(s_sub, *L)]
            elif p == 'mul': outs = [ew(s_mul, *L)]
            elif p == 'div': outs = [ew(s_div, *L)]
            elif p == 'neg': outs = [ew(lambda a: s_sub(Fraction(0), a), L[0])]
            elif p == 'integer_pow':
                y = eqn.params['y']
                def pw(a):
                    r = a
                    for _ in range(y-1): r = s_mul(r, a)
                    return r
                outs = [ew(pw, L[0])]
            elif p == 'sqrt': outs = [ew(lambda a: SQRT(zr(a)), L[0])]
            elif p == 'reduce_sum':
                axes = eqn.params['axes']
                a = L[0]
                out = np.empty(tuple(s for i,s in enumerate(a.shape) if i not in axes), dtype=object)
                mv = np.moveaxis(a, axes, range(len(axes)))
                for idx in np.ndindex(*out.shape):
                    acc = Fraction(0)
                    for k in np.ndindex(*mv.shape[:len(axes)]): acc = s_add(acc, mv[k+idx])
                    out[idx] = acc
                outs = [out]
            elif p == 'dot_general': outs = [dot_general(invals[0], invals[1], **eqn.params)]
            elif p in ('gather','reshape','broadcast_in_dim','squeeze','transpose','slice','expand_dims','rev'):
                assert not any(is_sym(a) for a in invals[1:]), p
                outs = [index_track(eqn.primitive, eqn.params, 0, invals)]
            elif p == 'convert_element_type': outs = [L[0]]
            else:
                raise NotImplementedError(p + ' ' + str(eqn))
        for v, o in zip(eqn.outvars, outs): env[v] = o
    return [read(v) for v in jaxpr.outvars]

def symarr(name, shape):
    out = np.empty(shape, dtype=object)
    for idx in np.ndindex(*shape): out[idx] = z3.Real(name + '_' + '_'.join(map(str, idx)))
    return out
