"""Probe FS model with crash injection. Throwaway."""
import fnmatch, io
class Crash(Exception): pass
class FS:
    def __init__(self):
        self.files = {}      # path -> bytes
        self.dirs = set()
        self.effects = 0
        self.crash_at = -1
    def tick(self):
        if self.effects == self.crash_at:
            self.effects += 1
            raise Crash()
        self.effects += 1
class _W(io.RawIOBase):
    def __init__(self, fs, path):
        self.fs, self.path = fs, path
        fs.tick(); fs.files[path] = b''       # create/truncate is an effect
    def write(self, data):
        data = bytes(data)
        half = len(data)//2
        try:
            self.fs.tick()
        except Crash:
            self.fs.files[self.path] += data[:half]   # torn write
            raise
        self.fs.files[self.path] += data
        return len(data)
    def writable(self): return True
    def __enter__(self): return self
    def __exit__(self, *a): return False
class GFileMod:
    def __init__(self, fs): self.fs = fs
    def GFile(self, path, mode):
        if 'w' in mode:
            w = _W(self.fs, path)
            if 'b' not in mode:
                class T:
                    def __enter__(s): return s
                    def __exit__(s,*a): return False
                    def write(s, txt): return w.write(txt.encode())
                return T()
            return w
        return io.BytesIO(self.fs.files[path])
    def glob(self, pat): return sorted(p for p in self.fs.files if fnmatch.fnmatchcase(p, pat))
    def remove(self, path): self.fs.tick(); del self.fs.files[path]
    def makedirs(self, d): self.fs.dirs.add(d)
class FakeTF:
    def __init__(self, fs):
        class IO: pass
        self.io = IO(); self.io.gfile = GFileMod(fs)
