import jax, jax.numpy as jnp, numpy as np
from jax.extend.core import Primitive
from jax import core
from jax.interpreters import ad, batching
import fedjax

uf_loss_p = Primitive('uf_loss')         # (w[d], x[f]) -> scalar
uf_dloss_p = Primitive('uf_dloss')       # (w[d], x[f]) -> [d]
uf_loss_p.def_abstract_eval(lambda w, x: core.ShapedArray((), w.dtype))
uf_dloss_p.def_abstract_eval(lambda w, x: core.ShapedArray(w.shape, w.dtype))
def loss_jvp(primals, tangents):
    w, x = primals; dw, dx = tangents
    out = uf_loss_p.bind(w, x)
    g = uf_dloss_p.bind(w, x)
    assert type(dx) is ad.Zero, 'loss differentiated wrt data'
    tout = jnp.vdot(g, dw) if type(dw) is not ad.Zero else ad.Zero.from_primal_value(out)
    return out, tout
ad.primitive_jvps[uf_loss_p] = loss_jvp
def per_example_loss(params, batch, rng):
    return jnp.stack([uf_loss_p.bind(params['w'], batch['x'][i]) for i in range(batch['x'].shape[0])])
reg = fedjax.core.regularizers.l2_regularizer(0.5) if hasattr(fedjax,'core') else None
from fedjax.core import regularizers
gf = fedjax.grad(per_example_loss, regularizers.l2_regularizer(0.5))
def f(w, x, m):
    with jax.disable_jit(), jax.ensure_compile_time_eval():
        return gf({'w': w}, {'x': x, '__mask__': m}, jax.random.PRNGKey(0))
print(jax.make_jaxpr(f)(jnp.ones(2), jnp.ones((3,2)), jnp.array([True, True, False])))
