import z3, time
R = z3.RealSort()
EXP = z3.Function('exp', R, R); LOG = z3.Function('log', R, R)
def zmax(a,b): return z3.If(a>=b,a,b)
def ce_query(n):
    x = [z3.Real(f'x{i}') for i in range(n)]
    t = z3.Int('t')
    m = x[0]
    for v in x[1:]: m = zmax(m, v)
    # implementation (log_softmax as jax does): shifted = x - m; lse = log(sum exp(shifted)); logp = shifted - lse; loss = -sum(onehot*logp)
    sh = [v - m for v in x]
    S = sum(EXP(s) for s in sh)
    logp = [s - LOG(S) for s in sh]
    impl = -sum(z3.If(t == i, 1, 0)*logp[i] for i in range(n))
    # reference: -log( exp(x_t) / sum_j exp(x_j) )
    Sx = sum(EXP(v) for v in x)
    xt = x[0]
    for i in range(1,n): xt = z3.If(t==i, x[i], xt)
    ref = -LOG(EXP(xt)/Sx)
    s = z3.Solver(); s.set('timeout', 120000)
    s.add(t >= 0, t < n)
    # ground lemma instances about exp/log (axioms of the real exp/log, instantiated on the terms that occur)
    for v in x:
        s.add(EXP(v) > 0, EXP(v - m) > 0, EXP(v - m) * EXP(m) == EXP(v))
    s.add(EXP(m) > 0, EXP(xt) > 0)
    s.add(z3.Or(*[z3.And(t==i, EXP(xt)==EXP(x[i])) for i in range(n)]))
    # log(a/b)=log a - log b ; log(a*b)=log a + log b; log(exp(y))=y  instances
    s.add(LOG(EXP(xt)/Sx) == LOG(EXP(xt)) - LOG(Sx))
    s.add(LOG(EXP(xt)) == xt, LOG(EXP(m)) == m)
    s.add(LOG(S*EXP(m)) == LOG(S) + LOG(EXP(m)))
    s.add(impl != ref)
    t0=time.time(); r = s.check(); print('ce', n, r, round(time.time()-t0,2))
for n in (2,3,4): ce_query(n)

def clip_query(n):
    x = [z3.Real(f'x{i}') for i in range(n)]; c = z3.Real('c'); nr = z3.Real('nr')
    s = z3.Solver(); s.set('timeout', 120000)
    sq = sum(v*v for v in x)
    s.add(nr >= 0, nr*nr == sq, c > 0, nr > 0)
    ratio = c/nr
    scale = z3.If(ratio <= 1, ratio, 1)
    y = [scale*v for v in x]
    sq2 = sum(v*v for v in y)
    # properties: norm(y)^2 <= c^2 ; y parallel to x with nonneg factor (y = scale x, 0<scale<=1) ; identity if nr<=c
    viol = z3.Or(sq2 > c*c, z3.And(nr <= c, z3.Or(*[y[i] != x[i] for i in range(n)])),
                 z3.Or(*[y[i]*x[j] != y[j]*x[i] for i in range(n) for j in range(i+1,n)]),
                 z3.Or(*[y[i]*x[i] < 0 for i in range(n)]))
    s.add(viol)
    t0=time.time(); r = s.check(); print('clip', n, r, round(time.time()-t0,2))
for n in (2,3,4,6): clip_query(n)

def eg_query(n):
    w = [z3.Real(f'w{i}') for i in range(n)]; l = [z3.Real(f'l{i}') for i in range(n)]
    s = z3.Solver(); s.set('timeout', 120000)
    s.add(*[v >= 0 for v in w]); s.add(sum(w) == 1)
    e = [EXP(z3.RealVal('1/10')*v) for v in l]
    s.add(*[v > 0 for v in e])
    nw = [zmax(w[i]*e[i], 0) for i in range(n)]
    tot = sum(nw)
    out = [v/tot for v in nw]
    s.add(z3.Or(sum(out) != 1, *[o < 0 for o in out]))
    t0=time.time(); r = s.check(); print('eg', n, r, round(time.time()-t0,2))
for n in (2,3,5): eg_query(n)
