import z3, time
def run(n, L, bug=False):
    v = [z3.Real(f'v{i}') for i in range(n)]
    u = [z3.Real(f'u{i}') for i in range(n)]
    def zmin(a,b): return z3.If(a<=b,a,b)
    def zmax(a,b): return z3.If(a>=b,a,b)
    vmin = v[0]; vmax = v[0]
    for x in v[1:]: vmin = zmin(vmin,x); vmax = zmax(vmax,x)
    r = vmax - vmin
    tot=0
    for i in range(n):
        s = z3.Solver(); s.set('timeout', 120000)
        for x in u: s.add(x >= 0, x < 1)
        s.add(r > 0)
        w = (v[i]-vmin)/r
        w = zmax(0, zmin(w,1))
        sc = w*(L-1)
        fl = z3.ToReal(z3.ToInt(sc)); ce = z3.If(fl == sc, fl, fl+1)
        vc = ce/(L-1); vf = fl/(L-1)
        thr = z3.If(vc==vf, 0, (w - vf)/(vc - vf))
        q = z3.If(u[i] > thr, vf, vc) if not bug else z3.If(u[i] > thr, vc, vf)
        out = vmin + q*r
        g = lambda k: vmin + z3.RealVal(k)/(L-1)*r
        spec = z3.Or(*[z3.And(g(k) <= v[i], v[i] <= g(k+1), z3.Or(out==g(k), out==g(k+1)),
                              z3.Implies(u[i]*(g(k+1)-g(k)) < (v[i]-g(k)), out==g(k+1)),
                              z3.Implies(u[i]*(g(k+1)-g(k)) > (v[i]-g(k)), out==g(k)))
                       for k in range(L-1)])
        s.add(z3.Not(spec))
        t=time.time(); r_=s.check(); dt=time.time()-t; tot+=dt
        print('  coord',i, r_, round(dt,2))
    print(n, L, bug, 'total', round(tot,2))
for n,L in [(4,4),(5,5)]:
    run(n,L)
