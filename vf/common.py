"""Shared plumbing: run record, evidence writer, exit codes, known findings."""
import hashlib
import json
import os
import sys
import time

VERIF = os.path.dirname(os.path.dirname(os.path.abspath(__file__)))
REPO = os.environ.get('VERIF_REPO', '/repo')
EXIT_OK, EXIT_VIOLATION, EXIT_INCONCLUSIVE = 0, 1, 2


def load_known():
  p = os.path.join(VERIF, 'known_findings.json')
  if not os.path.exists(p):
    return {'findings': [], 'fixed': []}
  return json.load(open(p))


class Run:
  """Collects obligations of one check run and turns them into evidence + exit code."""

  def __init__(self, pid, tier, seed):
    self.pid, self.tier, self.seed = pid, tier, seed
    self.t0 = time.time()
    self.obligations = []     # dicts: name, status (unsat|sat|unknown|confirmed|refuted|error), secs, detail
    self.witnesses = []       # dicts: name, kind (reach|mutation), ok
    self.violations = []      # dicts: key, what, replay, confirmed
    self.samples = []
    self.functions = []
    self.bounds = {}
    self.assumptions = []
    self.trusted = []
    self.notes = []
    self.solver_s = 0.0
    self.query_hashes = set()
    self.nontrivial = set()
    self.extra = {}
    self.inconclusive = []

  # ---- recording -------------------------------------------------------
  def ob(self, name, status, secs=0.0, detail=None, qhash=None, nontrivial=True):
    self.obligations.append({'name': name, 'status': status, 'secs': round(secs, 4)})
    self.solver_s += secs
    h = qhash or hashlib.sha1(name.encode()).hexdigest()[:12]
    self.query_hashes.add(h)
    if nontrivial:
      self.nontrivial.add(h)
    if status in ('unknown', 'error'):
      self.inconclusive.append('%s: %s %s' % (name, status, detail or ''))
    if detail is not None and len(self.samples) < 6:
      self.samples.append({'obligation': name, 'status': status, 'detail': detail})

  def witness(self, name, kind, ok, detail=None):
    self.witnesses.append({'name': name, 'kind': kind, 'ok': bool(ok)})
    if not ok:
      self.inconclusive.append('witness failed: %s (%s) %s' % (name, kind, detail or ''))

  def violation(self, key, what, replay_input, confirmed):
    """key: stable identifier of the failing input class (matched against known_findings)."""
    path = None
    if replay_input is not None:
      d = os.path.join(VERIF, 'replays', self.pid)
      os.makedirs(d, exist_ok=True)
      blob = json.dumps(replay_input, sort_keys=True, default=str)
      path = os.path.join(d, hashlib.sha1(blob.encode()).hexdigest()[:12] + '.json')
      with open(path, 'w') as f:
        f.write(blob)
    self.violations.append({'key': key, 'what': what, 'replay': path, 'confirmed': bool(confirmed)})

  def fail(self, msg):
    self.inconclusive.append(msg)

  # ---- finish ----------------------------------------------------------
  def finish(self, level='model_checking'):
    known = load_known()
    known_keys = {f['key']: f for f in known.get('findings', []) if f.get('property') == self.pid}
    new_viol, known_hit, unconfirmed = [], [], []
    for v in self.violations:
      if not v['confirmed']:
        unconfirmed.append(v)
      elif v['key'] in known_keys:
        known_hit.append(v)
      else:
        new_viol.append(v)
    for v in unconfirmed:
      self.inconclusive.append('counterexample did not replay on the real code (encoding gap): %s' % v['what'])
    n_ob = len(self.obligations)
    n_dis = sum(1 for o in self.obligations if o['status'] in ('unsat', 'confirmed'))
    cov = {
        'evaluations': max(n_ob, 1),
        'distinct_nontrivial': len(self.nontrivial),
        'rule': ('one evaluation = one solver query / symbolic-execution condition; distinct = distinct obligation '
                 'names (configuration x output coordinate x clause); non-trivial = the query reached the solver '
                 'with at least one symbolic variable (not decided by constant folding)'),
        'samples': self.samples[:6] or [{'note': 'no samples recorded'}],
        'obligations': n_ob,
        'discharged': n_dis,
        'sat_or_refuted': sum(1 for o in self.obligations if o['status'] in ('sat', 'refuted')),
        'unknown': sum(1 for o in self.obligations if o['status'] in ('unknown', 'error')),
        'witnesses': self.witnesses,
        'functions_encoded': self.functions,
        'bounds': self.bounds,
        'solver_s': round(self.solver_s, 3),
        'trusted_base': self.trusted,
        'explanation': ('bounded symbolic execution of the real code; every obligation is a solver query over all '
                        'values inside the stated configuration bounds; nothing is claimed outside them'),
        'exhaustive': False,
        'known_findings_reproduced': [v['key'] for v in known_hit],
        'violations': [{'key': v['key'], 'what': v['what'], 'replay': v['replay']} for v in new_viol],
        'inconclusive': self.inconclusive[:20],
        'slowest': sorted(self.obligations, key=lambda o: -o['secs'])[:5],
    }
    cov.update(self.extra)
    ev = {
        'property_id': self.pid, 'tier': self.tier, 'seed': int(self.seed), 'level': level,
        'coverage': cov, 'assumptions': self.assumptions + self.notes,
        'wall_s': round(time.time() - self.t0, 2), 'violations': len(new_viol),
    }
    evdir = os.environ.get('VERIF_EVIDENCE_DIR') or os.path.join(VERIF, 'evidence')   # seed runs point this elsewhere
    os.makedirs(evdir, exist_ok=True)
    with open(os.path.join(evdir, self.pid + '.json'), 'w') as f:
      json.dump(ev, f, indent=1, default=str)
    for v in known_hit:
      print('KNOWN-FINDING: property=%s %s' % (self.pid, known_keys[v['key']].get('what', v['what'])))
    seen = set()
    for v in new_viol:
      if v['key'] in seen:
        continue
      seen.add(v['key'])
      print('VIOLATION property=%s replay=%s' % (self.pid, v['replay']))
      print('  what: %s' % v['what'])
    print('%s tier=%s obligations=%d discharged=%d known=%d new_violations=%d inconclusive=%d wall=%.1fs solver=%.1fs'
          % (self.pid, self.tier, n_ob, n_dis, len(known_hit), len(new_viol), len(self.inconclusive),
             time.time() - self.t0, self.solver_s))
    sys.stdout.flush()
    if new_viol:
      return EXIT_VIOLATION
    if self.inconclusive:
      for m in self.inconclusive[:10]:
        print('INCONCLUSIVE: ' + m)
      return EXIT_INCONCLUSIVE
    # known findings listed in the file must still reproduce, otherwise the file is stale (not an error)
    return EXIT_OK
