"""Harness helpers for Engine J: equivalence of the real code with a reference, per-coordinate queries,
translator validation against real JAX, counterexample replay."""
import time
import traceback
from fractions import Fraction

import numpy as np
import z3

import jax
import jax.numpy as jnp

from . import symjx as sj


def flat_leaves(tree):
  return jax.tree_util.tree_leaves(tree, is_leaf=lambda x: isinstance(x, np.ndarray))


def flat_with_paths(tree):
  lp, _ = jax.tree_util.tree_flatten_with_path(tree, is_leaf=lambda x: isinstance(x, np.ndarray))
  return [(jax.tree_util.keystr(p), l) for p, l in lp]


def abstract_of(sym_args, dtypes=None):
  """ShapeDtypeStructs matching a pytree of object arrays (float32 unless the element kind says otherwise)."""
  def one(a):
    if a.size:
      e = a.reshape(-1)[0]
      if isinstance(e, sj.RawKey):
        return jax.ShapeDtypeStruct(a.shape, np.uint32)
      if isinstance(e, (bool, np.bool_)) or (sj.is_z(e) and z3.is_bool(e)):
        return jax.ShapeDtypeStruct(a.shape, np.bool_)
      if isinstance(e, int) or (sj.is_z(e) and z3.is_int(e)):
        return jax.ShapeDtypeStruct(a.shape, np.int32)
    return jax.ShapeDtypeStruct(a.shape, np.float32)
  return jax.tree_util.tree_map(one, sym_args, is_leaf=lambda x: isinstance(x, np.ndarray))


class Harness:
  """One harness = code under test (fnA) + reference (fnB) over the same symbolic arguments."""

  def __init__(self, run, name, timeout=20.0):
    self.run, self.name, self.timeout = run, name, timeout

  # -- equivalence ----------------------------------------------------------------------
  def equiv(self, fnA, fnB, sym_args, assumptions=(), abstract_args=None, tol_note='', select=None,
            compare=None, index_domain=None):
    """Prove fnA(*args) == fnB(*args) leaf by leaf, coordinate by coordinate.
    Returns list of counterexample dicts (model -> concrete args) for sat queries."""
    abstract_args = abstract_args or abstract_of(sym_args)
    cexs = []
    ctx = sj.Ctx()
    try:
      outB, pcB, _, _ = sj.run_symbolic(fnB, abstract_args, sym_args, ctx=ctx)
    except sj.Unsupported as e:
      self.run.ob(self.name + ':reference', 'error', detail='unsupported in reference: %s' % e)
      return cexs
    if pcB:
      self.run.ob(self.name + ':reference', 'error', detail='reference forks')
      return cexs
    paths = 0
    stack = [()]
    while stack:
      script = stack.pop()
      try:
        outA, pcs, decisions, closed = sj.run_symbolic(fnA, abstract_args, sym_args, ctx=ctx, script=script,
                                                       index_domain=index_domain)
      except sj.Unsupported as e:
        self.run.ob(self.name + ':trace', 'error', detail='unsupported: %s' % e)
        return cexs
      paths += 1
      if paths > 64:
        self.run.ob(self.name + ':trace', 'error', detail='too many paths')
        return cexs
      for i in range(len(script), len(decisions)):
        for alt in sj.alternatives(decisions[i], index_domain):
          stack.append(tuple(decisions[:i]) + (alt,))
      base = list(assumptions) + ctx.all_facts() + [c for c in pcs]
      if pcs:
        st, _ = sj.check_sat(base, self.timeout)
        if st == 'unsat':
          continue   # infeasible path
      la, lb = flat_with_paths(outA), flat_with_paths(outB)
      if [p for p, _ in la] != [p for p, _ in lb] or any(a.shape != b.shape for (_, a), (_, b) in zip(la, lb)):
        self.run.ob(self.name + ':structure', 'sat', detail='output structure differs: %s vs %s' % (
            [(p, a.shape) for p, a in la], [(p, b.shape) for p, b in lb]))
        cexs.append({'kind': 'structure', 'model': None})
        continue
      for (path, a), (_, b) in zip(la, lb):
        if select is not None and not select(path):
          continue
        for idx in np.ndindex(*a.shape):
          goal = (compare or sj.same)(a[idx], b[idx])
          nm = '%s%s%s[%s]' % (self.name, path, list(idx), ''.join(str(d[1]) if isinstance(d, tuple) else ('T' if d else 'F') for d in decisions))
          t = time.time()
          if not sj.is_z(goal):
            st, model = ('unsat', None) if goal else sj.check_sat(base, self.timeout)
            nontriv = False
          else:
            st, model = sj.prove(base, goal, self.timeout)
            nontriv = True
          dt = time.time() - t
          detail = None
          if st == 'sat':
            detail = {'code': str(_mv(model, a[idx])), 'reference': str(_mv(model, b[idx]))}
            cexs.append({'kind': 'value', 'where': path + str(list(idx)), 'model': model, 'ctx': ctx,
                         'script': decisions, 'detail': detail})
          elif st == 'unknown':
            detail = str(model)
          elif len(self.run.samples) < 3 and nontriv:
            detail = {'query': 'assumptions /\\ not(code == reference)', 'code_term': _short(a[idx]),
                      'reference_term': _short(b[idx])}
          self.run.ob(nm, st, dt, detail=detail, nontrivial=nontriv)
    return cexs

  def prove_all(self, label, ctx, assumptions, goals, abstract_noise=False):
    """goals: list of (name, z3 Bool/python bool).  Returns list of (name, model) for sat."""
    bad = []
    for nm, g in goals:
      t = time.time()
      if abstract_noise and sj.is_z(g):
        (g2,), _ = sj.abstract_noise_atoms([g], list(ctx.uniforms.values()))
        st, model = sj.prove(list(assumptions) + ctx.all_facts(), g2, self.timeout)
        if st != 'unsat':
          st, model = sj.prove(list(assumptions) + ctx.all_facts(), g, self.timeout)
      else:
        st, model = sj.prove(list(assumptions) + ctx.all_facts(), g, self.timeout)
      if st != 'unsat' and sj.RICH_TRANS[0] and getattr(ctx, 'rich', None):
        # not proved from the plain facts: decide again with the elementary bounds of exp/log added (true facts, so `unsat` is
        # sound; a model found under them is close enough to the real functions to replay)
        st, model = sj.prove(list(assumptions) + ctx.all_facts() + list(ctx.rich), g, self.timeout)
      self.run.ob('%s:%s:%s' % (self.name, label, nm), st, time.time() - t,
                  detail=(str(model)[:300] if st != 'unsat' else None), nontrivial=sj.is_z(g))
      if st == 'sat':
        bad.append((nm, model))
    return bad

  def witness_sat(self, label, ctx, constraints, kind='reach'):
    """Vacuity guard: constraints must be satisfiable."""
    st, m = sj.check_sat(list(constraints) + ctx.all_facts(), self.timeout)
    self.run.witness('%s:%s' % (self.name, label), kind, st == 'sat', detail=st)
    return st == 'sat'


def engine_fault(exc):
  """True if the exception comes from the verification engine itself (not from the code under test).
  AssertionErrors raised by a harness are property verdicts, not faults."""
  if isinstance(exc, sj.Unsupported):
    return True
  if isinstance(exc, AssertionError):
    return False
  if isinstance(exc, z3.Z3Exception):
    return True
  tb = traceback.extract_tb(exc.__traceback__)
  return bool(tb) and '/verif/vf/' in tb[-1].filename


def _mv(model, e):
  try:
    return sj.model_value(model, e)
  except Exception as ex:   # pylint: disable=broad-except
    return 'n/a(%s)' % ex


def _short(e):
  s = str(e)
  return s if len(s) < 400 else s[:400] + '...'


# ----------------------------------------------------------------------------------------
# translator validation
# ----------------------------------------------------------------------------------------
def validate_translation(fn, abstract_args, seed, n=2, tol=2e-4, gen=None):
  """Interpret the traced jaxpr on concrete rationals (numeric ctx) and compare with real JAX."""
  rng = np.random.RandomState(seed)
  closed, shape, _ = sj.trace(fn, abstract_args)
  flat_abs = jax.tree_util.tree_leaves(abstract_args)
  worst = 0.0
  for _ in range(n):
    conc = []
    for a in flat_abs:
      k = np.dtype(a.dtype).kind
      if gen is not None:
        conc.append(gen(rng, a))
      elif k == 'f':
        conc.append(rng.randint(-8, 9, size=a.shape).astype(np.float32) / 4)
      elif k == 'b':
        conc.append(rng.rand(*a.shape) < 0.6)
      elif k == 'u':
        conc.append(rng.randint(0, 2**31, size=a.shape).astype(np.uint32))
      else:
        conc.append(rng.randint(0, 3, size=a.shape).astype(a.dtype))
    real = jax.core.eval_jaxpr(closed.jaxpr, closed.consts, *[jnp.asarray(c) for c in conc])
    it = sj.Interp(sj.Ctx(numeric=True))
    mine = it.eval_closed(closed, *[sj.lift(c) if np.dtype(c.dtype).kind != 'u' else c for c in conc])
    for r, m in zip(real, mine):
      r = np.asarray(r)
      m = m if sj.is_sym(m) else sj.lift(m)
      for idx in np.ndindex(*r.shape):
        mv = m[idx]
        if isinstance(mv, (sj.KeyT, sj.RawKey)):
          continue
        mv = float('nan') if (isinstance(mv, sj.XR) and mv.nan is True) else (
            float('inf') if isinstance(mv, sj.XR) and mv.pinf is True else (
                float('-inf') if isinstance(mv, sj.XR) and mv.ninf is True else float(mv)))
        rv = float(r[idx])
        if np.isnan(rv) and np.isnan(mv):
          continue
        if np.isinf(rv) or np.isinf(mv):
          d = 0.0 if rv == mv else float('inf')
        else:
          d = abs(rv - mv) / (1 + abs(rv))
        worst = max(worst, d)
  return worst <= tol, worst


# ----------------------------------------------------------------------------------------
# replay
# ----------------------------------------------------------------------------------------
def concrete_args(model, sym_args, dtype=np.float64):
  def one(a):
    if a.size and isinstance(a.reshape(-1)[0], sj.RawKey):
      out = np.zeros(a.shape, np.uint32)
      for idx in np.ndindex(*a.shape[:-1]):
        term = a[idx + (0,)].key.term
        code = abs(hash(term)) % (2**31)
        out[idx + (0,)] = 0
        out[idx + (1,)] = code
      return out
    e0 = a.reshape(-1)[0] if a.size else None
    if sj.is_z(e0) and z3.is_bool(e0):
      return sj.model_array(model, a, np.bool_)
    if sj.is_z(e0) and z3.is_int(e0):
      return sj.model_array(model, a, np.int32)
    return sj.model_array(model, a, dtype)
  return jax.tree_util.tree_map(one, sym_args, is_leaf=lambda x: isinstance(x, np.ndarray))


def box_assumptions(sym_args, bound=1):
  """|v| <= bound for every symbolic real input: used only to look for a SECOND, tamer counterexample when the first one
  did not replay (huge model values drown a genuine difference in floating point); never part of a proof."""
  out = []
  for a in jax.tree_util.tree_leaves(sym_args, is_leaf=lambda x: isinstance(x, np.ndarray)):
    if isinstance(a, np.ndarray) and a.dtype == object:
      for e in a.reshape(-1):
        if sj.is_z(e) and e.sort() == z3.RealSort():
          out += [e >= -bound, e <= bound]
  return out


def open_tree(tree):
  """Mappings that JAX does not know as containers (e.g. mappingproxy) would be opaque leaves: read them as dicts."""
  import collections.abc as cabc
  opaque = lambda l: isinstance(l, cabc.Mapping) and not isinstance(l, dict)
  return jax.tree_util.tree_map(lambda l: open_tree(dict(l)) if opaque(l) else l, tree, is_leaf=opaque)


def max_discrepancy(outA, outB):
  """Largest relative discrepancy between two concrete pytrees; inf if structure/NaN-ness differs."""
  la, lb = jax.tree_util.tree_leaves(open_tree(outA)), jax.tree_util.tree_leaves(open_tree(outB))
  if len(la) != len(lb):
    return float('inf'), 'structure'
  worst, where = 0.0, None
  for i, (a, b) in enumerate(zip(la, lb)):
    a, b = np.asarray(a, dtype=np.float64), np.asarray(b, dtype=np.float64)
    if a.shape != b.shape:
      return float('inf'), 'shape of leaf %d' % i
    na, nb = ~np.isfinite(a), ~np.isfinite(b)
    if (np.isnan(a) != np.isnan(b)).any() or (na != nb).any():
      return float('inf'), 'non-finite mismatch in leaf %d: %s vs %s' % (i, a, b)
    fin = ~na
    if fin.any():
      d = float(np.max(np.abs(a[fin] - b[fin]) / (1 + np.abs(b[fin]))))
      if d > worst:
        worst, where = d, 'leaf %d: %s vs %s' % (i, a, b)
  return worst, where
