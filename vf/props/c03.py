"""C03: sequential batching is an exact, order-preserving partition (Engine X: CrossHair on the real client_datasets.py)."""
import os
import sys

from .. import xh

LEVEL = 'model_checking'
HARNESS = 'c03_h.py'


def _harness():
  sys.path.insert(0, xh.HARNESS_DIR)
  import c03_h   # noqa
  import adapters
  return c03_h, adapters


def replay_fn(func, args):
  """Replays a CrossHair counterexample with REAL numpy and the real fedjax module."""
  h, adapters = _harness()
  cdm = adapters.load_real_cd()
  A = adapters.RealNP
  try:
    if func in ('padded', 'padded_reach'):
      ok = h.check_padded(cdm, A, list(args['vals']), args['batch_size'], args['buckets'], args['pp'], args.get('sl', 0))
    elif func == 'plain':
      ok = h.check_plain(cdm, A, list(args['vals']), args['batch_size'], args['drop'], args['pp'], args.get('sl', 0))
    else:
      ok = h.check_final_size(cdm, args['n'], args['batch_size'], args['buckets'])
  except Exception as e:   # pylint: disable=broad-except
    return True, 'real code raises %r' % (e,)
  return (not ok), ('oracle fails on the real numpy run' if not ok else 'real run satisfies the oracle')


def replay(data):
  import ast
  return replay_fn(data['func'], ast.literal_eval(data['args']))


def validate_models(run):
  sys.path.insert(0, xh.HARNESS_DIR)
  import np_lite
  probs = np_lite.validate()
  run.witness('np_lite-vs-numpy', 'translation', not probs, '; '.join(probs))
  # the oracle itself must accept the real code on the repo's own test inputs (translator validation)
  h, adapters = _harness()
  cdm, A = adapters.load_real_cd(), adapters.RealNP
  # concrete layer: the oracle on the real code and real numpy for literal inputs (a failure is a real failing input)
  lits = [('padded', dict(vals=[1, 2, 3, 4, 5], batch_size=3, buckets=1, pp=1, sl=0)), ('padded', dict(vals=[1, 2, 3, 4, 5], batch_size=4, buckets=2, pp=2, sl=0)),
          ('padded', dict(vals=[1, 2, 3, 4, 5, 6, 7], batch_size=4, buckets=1, pp=0, sl=2)), ('padded', dict(vals=[4, 5, 6], batch_size=1, buckets=1, pp=1, sl=1)),
          ('plain', dict(vals=[1, 2, 3, 4, 5], batch_size=3, drop=False, pp=1, sl=0)), ('plain', dict(vals=[1, 2, 3, 4, 5], batch_size=3, drop=True, pp=0, sl=0)),
          ('plain', dict(vals=[1, 2, 3], batch_size=1, drop=False, pp=0, sl=1)),
          ('final_size', dict(n=9, batch_size=8, buckets=3)), ('final_size', dict(n=16, batch_size=8, buckets=2)), ('final_size', dict(n=9, batch_size=6, buckets=2))]
  for func, a in lits:
    bad, msg = replay_fn(func, a)
    xh.concrete_probe(run, '%s%s' % (func, sorted(a.items())), bad, msg, {'func': func, 'args': repr(a)})


def check(run):
  timeout = 400 if run.tier == 'quick' else 2400
  env = None if run.tier == 'quick' else {'C03_BOUNDS': '9,6,4'}
  run.functions += ['client_datasets.ClientDataset.batch/padded_batch', 'BatchView', 'PaddedBatchView', '_pick_final_batch_size',
                    'pad_examples', 'attach_mask', 'slice_examples', 'BatchPreprocessor']
  run.trusted += ['CrossHair "Confirmed over all paths" (z3 per path)', 'np_lite list-based numpy model (validated against numpy each run)']
  run.assumptions += ['numpy dtype promotion and real memory layout are outside the model', 'row values are symbolic ints; a second feature has trailing shape (2,); a third is float32 with a non-finite value in every row', 'datasets as constructed and as prefix / inner slices of a longer parent']
  run.bounds = {'N': '0..6 (thorough 0..9)', 'batch_size': '1..4 (6)', 'buckets': '1..3 (4)', 'preprocessor chains': '0, 1 (derived feature), 2 (+ in-place modifier)',
                'bucket rule alone': 'N<=40, batch<=12, buckets<=4'}
  validate_models(run)
  specs = [(f, 'prop', {'C03_SL': str(sl)}, '[dataset=%s]' % ['as-built', 'prefix-slice', 'inner-slice'][sl]) for f in ('padded', 'plain') for sl in (0, 1, 2)] + \
      [('final_size', 'prop'), ('padded_reach', 'reach')]
  xh.discharge(run, HARNESS, specs, timeout, replay_fn, env)
