"""C15: centralised streams over many clients neither lose nor duplicate (Engine X)."""
import ast
import itertools
import sys

from .. import xh

LEVEL = 'model_checking'
HARNESS = 'c15_h.py'


def _harness():
  sys.path.insert(0, xh.HARNESS_DIR)
  import c15_h   # noqa
  import adapters
  return c15_h, adapters


def replay_fn(func, a):
  h, adapters = _harness()
  st, A = adapters.load_real_stack(), adapters.RealNP
  try:
    if func in ('pbcd', 'pbcd_reach'):
      ok = h.check_pbcd(st, A, list(a['sizes']), a['batch_size'], a['buckets'], a['gen'], False)
    elif func == 'pbcd_fd':
      ok = h.check_pbcd(st, A, list(a['sizes']), a['batch_size'], a['buckets'], False, True)
    elif func == 'mismatch':
      ok = h.check_mismatch(st, A, a['kind'], a['which'], a['api'], a.get('msize', 1), a.get('osize', 2))
    elif func == 'bshuffle':
      # real numpy draws its own permutation/swaps: try many seeds so that the rare draw (e.g. randint == 0) occurs
      ok = all(_bshuffle_real(st, a['n'], a['buffer_size'], a['gen'], seed) for seed in range(40))
    elif func == 'bsbcd':
      ok = all(_bsbcd_real(st, A, list(a['sizes']), a['batch_size'], a['buffer_size'], seed) for seed in range(40))
    elif func == 'repeatable':
      ok = h.check_repeat(st, a['kind'], a['n'], a['drive'])
    elif func == 'srbfd':
      ok = h.check_srbfd(st, A, list(a['sizes']), a['batch_size'], a['cbuf'], a['ebuf'], a['seed0'], None)
    elif func == 'srbfd_subset':
      return _subset_processes([1] * a['n'], 1, a['cbuf'])
    else:
      return False, 'no replay for %s' % func
  except Exception as e:   # pylint: disable=broad-except
    return True, 'real code raises %r' % (e,)
  return (not ok), ('real numpy run violates the oracle' if not ok else 'real run satisfies the oracle')


_SUBSET_SCRIPT = """
import sys, itertools, numpy as np
from fedjax.core import federated_data as fd, in_memory_federated_data as im
sizes, batch_size, cbuf = %r, %r, %r
off, data = 0, {}
for i, n in enumerate(sizes):
  data[b'client-%%d' %% i] = {'x': np.arange(off, off + n)}
  off += n
sub = fd.SubsetFederatedData(im.InMemoryFederatedData(data), list(data))
ids = [c for c, _ in itertools.islice(sub.shuffled_clients(buffer_size=cbuf, seed=3), 2 * len(sizes))]
it = fd.shuffle_repeat_batch_federated_data(sub, batch_size=batch_size, client_buffer_size=cbuf, example_buffer_size=1, seed=3)
print(ids, [b['x'].tolist() for b in itertools.islice(it, 2)], [c for c, _ in sub.clients()])
"""


def _subset_processes(sizes, batch_size, cbuf):
  """Replay of a set-order counterexample on the real code: the same call in processes with different hash seeds."""
  import os
  import subprocess
  outs = set()
  for hs in ('1', '2', '3', '4', '5', '6'):
    env = dict(os.environ, PYTHONHASHSEED=hs, JAX_PLATFORMS='cpu')
    r = subprocess.run([sys.executable, '-c', _SUBSET_SCRIPT % (sizes, batch_size, cbuf)], capture_output=True, text=True, env=env, timeout=300)
    if r.returncode != 0:
      return True, 'real code raises: %s' % r.stderr.strip().splitlines()[-1][:200]
    outs.add(r.stdout.strip())
  return len(outs) > 1, ('the same seeded call gives %d different streams in processes with different hash seeds: %s' % (len(outs), sorted(outs)[:2])
                         if len(outs) > 1 else 'identical stream in 6 processes with different hash seeds')


def _bshuffle_real(st, n, buffer_size, gen, seed):
  import numpy as np
  src = (i for i in range(n)) if gen else list(range(n))
  out = list(st['cd'].buffered_shuffle(src, buffer_size, np.random.RandomState(seed)))
  src2 = (i for i in range(n)) if gen else list(range(n))
  return sorted(out) == list(range(n)) and out == list(st['cd'].buffered_shuffle(src2, buffer_size, np.random.RandomState(seed)))


def _bsbcd_real(st, A, sizes, batch_size, buffer_size, seed):
  import numpy as np
  h, _ = _harness()
  dss, total = h.mk_datasets(st['cd'], A, sizes)
  batches = list(st['cd'].buffered_shuffle_batch_client_datasets((d for d in dss), batch_size=batch_size, buffer_size=buffer_size,
                                                                rng=np.random.RandomState(seed)))
  rows = [v for b in batches for v in A.rows(b['x'])]
  sizes_ok = all(len(A.rows(b['x'])) == batch_size for b in batches[:-1]) and all(0 < len(A.rows(b['x'])) <= batch_size for b in batches)
  return sizes_ok and sorted(rows) == list(range(total))


def replay(data):
  return replay_fn(data['func'], ast.literal_eval(data['args']))


def check(run):
  timeout = 900 if run.tier == 'quick' else 2400
  run.functions += ['client_datasets.padded_batch_client_datasets', 'buffered_shuffle', 'buffered_shuffle_batch_client_datasets',
                    'federated_data.padded_batch_federated_data', 'shuffle_repeat_batch_federated_data', 'RepeatableIterator',
                    'in_memory_federated_data.InMemoryFederatedData.clients/shuffled_clients']
  run.trusted += ['CrossHair "Confirmed over all paths"', 'np_lite + oracle tape (shuffle of an item list = symbolic permutation of positions; randint = symbolic value in range)',
                  'tape-free deterministic RNG model for the two-level federated stream (seeded = fixed rotation, each unseeded generator = a different rotation)']
  run.trusted.append('hash sets of ids modelled as order-free (iteration order = a symbolic choice per run, standing for another process / hash seed)')
  run.assumptions += ['a final batch without any real row (empty clients after a batch boundary) is tolerated: nothing is lost or duplicated',
                      'statistical quality of the shuffle is outside the claim']
  run.bounds = {'clients': '<=3', 'client sizes': '0..3', 'batch_size': '1..3', 'buckets': '1..2', 'stream length (buffered shuffle)': '0..5',
                'buffer_size': '1..4 (longer than the stream included)', 'base iterables': 'list, tuple, generator, iterator, empty'}
  sys.path.insert(0, xh.HARNESS_DIR)
  import np_lite
  probs = np_lite.validate()
  run.witness('np_lite-vs-numpy', 'translation', not probs, '; '.join(probs))
  h, adapters = _harness()
  st, A = adapters.load_real_stack(), adapters.RealNP
  ok = all([h.check_pbcd(st, A, [10, 1, 4, 2], 4, 2, True, False), h.check_pbcd(st, A, [6, 5], 3, 1, False, True),
            h.check_repeat(st, 1, 3, 0), h.check_repeat(st, 0, 3, 1), h.check_mismatch(st, A, 0, 1, 0), h.check_mismatch(st, A, 1, 2, 1),
            _bshuffle_real(st, 5, 2, True, 1), _bsbcd_real(st, A, [2, 0, 3], 2, 3, 1), h.check_srbfd(st, A, [2, 1], 2, 2, 2, True, None)])
  run.witness('oracle-accepts-real-code-on-test-inputs', 'translation', ok)
  specs = [('pbcd', 'prop'), ('pbcd_fd', 'prop'), ('mismatch', 'prop'), ('bshuffle', 'prop'), ('bsbcd', 'prop'), ('repeatable', 'prop'),
           ('srbfd', 'prop'), ('srbfd_subset', 'prop'), ('pbcd_reach', 'reach'), ('bshuffle_nontrivial', 'reach')]
  xh.discharge(run, HARNESS, specs, timeout, replay_fn)
