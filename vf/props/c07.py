"""C07: aggregation is the exact weighted mean and never harms its inputs (Engine J)."""
import itertools
import json
import time

import numpy as np
import z3

import jax
import jax.numpy as jnp
from jax.extend import core as jcore

from .. import symjx as sj
from .. import jh
from .c01 import replay_subprocess

LEVEL = 'model_checking'


def _imports():
  from fedjax.core import tree_util
  from fedjax.aggregators import aggregator
  return tree_util, aggregator


def sym_trees(n, shapes):
  return [{k: sj.symarr('p%d%s' % (i, k), s) for k, s in shapes.items()} for i in range(n)]


SHAPES = {'a': (2,), 'b': ()}


def code_fn(cfg):
  tree_util, aggregator = _imports()
  op, feed = cfg['op'], cfg.get('feed', 'list')
  ws = cfg.get('weights')

  def feeder(items):
    if feed == 'gen':
      return (x for x in items)
    if feed == 'iter':
      return iter(items)
    return list(items)

  def fn(trees, wsym):
    if op == 'sum':
      return tree_util.tree_sum(feeder(trees))
    weights = list(wsym) if ws is None else ws
    if op == 'mean':
      return tree_util.tree_mean(feeder(zip(trees, weights)))
    if op == 'agg':
      agg = aggregator.mean_aggregator()
      out, state = agg.apply(feeder((b'c%d' % (0 if cfg.get('ids') == 'same' else i), t, w) for i, (t, w) in enumerate(zip(trees, weights))), agg.init())
      return out
    raise ValueError(op)
  return fn


def ref_fn(cfg):
  op = cfg['op']
  ws = cfg.get('weights')

  def fn(trees, wsym):
    if op == 'sum':
      return jax.tree_util.tree_map(lambda *ls: sum(ls), *trees)
    weights = list(wsym) if ws is None else ws
    num = jax.tree_util.tree_map(lambda *ls: sum(w * l for w, l in zip(weights, ls)), *trees)
    den = sum(weights)
    if ws is None:
      return jax.tree_util.tree_map(lambda l: jnp.where(den > 0, l / jnp.where(den > 0, den, 1.0), jnp.zeros_like(l)), num)
    if den > 0:
      return jax.tree_util.tree_map(lambda l: l / den, num)
    return jax.tree_util.tree_map(jnp.zeros_like, num)
  return fn


def donation_scan(fn, args):
  """Dataflow on the IR: caller-owned inputs or still-live values must not sit at donated positions;
  outputs must not alias inputs."""
  closed = jax.make_jaxpr(fn)(*args)
  jp = closed.jaxpr
  invars = set(jp.invars)
  problems = []
  for i, eqn in enumerate(jp.eqns):
    don = eqn.params.get('donated_invars')
    if not don:
      continue
    for pos, (v, d) in enumerate(zip(eqn.invars, don)):
      if not d or isinstance(v, jcore.Literal):
        continue
      if v in invars:
        problems.append('eqn %d (%s %s) donates caller-owned input %s' % (i, eqn.primitive.name, eqn.params.get('name', ''), v))
      later = any(v in e.invars for e in jp.eqns[i + 1:]) or v in jp.outvars
      if later:
        problems.append('eqn %d donates %s which is used afterwards' % (i, v))
  for o in jp.outvars:
    if o in invars:
      problems.append('output aliases caller-owned input %s' % o)
  ndon = sum(1 for e in jp.eqns if e.params.get('donated_invars') and any(e.params['donated_invars']))
  return problems, ndon


def concrete_inputs_intact(cfg, vals=None):
  """Concrete confirmation: run the real function and check the caller's arrays are alive and unchanged."""
  n = cfg['n']
  rng = np.random.RandomState(0)
  trees = [{k: jnp.asarray(np.asarray(rng.randn(*s), dtype=np.float32)) for k, s in SHAPES.items()} for _ in range(n)]
  copies = [{k: np.asarray(v).copy() for k, v in t.items()} for t in trees]
  ws = cfg.get('weights') or [1.0] * n
  out = code_fn(dict(cfg, weights=ws))(trees, None)
  outs = [o for o in jax.tree_util.tree_leaves(out) if hasattr(o, 'unsafe_buffer_pointer')]
  for t, c in zip(trees, copies):
    for k in t:
      for o in outs:       # aliasing: the result IS (or shares its buffer with) a caller-owned array
        try:
          if o is t[k] or (not o.is_deleted() and not t[k].is_deleted() and o.unsafe_buffer_pointer() == t[k].unsafe_buffer_pointer()):
            return False, 'the result aliases the caller-owned input leaf %r (same array object / buffer)' % k
        except Exception:   # pylint: disable=broad-except
          pass
      if t[k].is_deleted():
        return False, 'input leaf %r was deleted (donated) by the call' % k
      if not np.array_equal(np.asarray(t[k]), c[k]):
        return False, 'input leaf %r changed value' % k
  return True, 'inputs alive and unchanged'


def run_value(run, cfg, timeout):
  name = 'val[%s]' % ','.join('%s=%s' % (k, cfg[k]) for k in sorted(cfg))
  h = jh.Harness(run, name, timeout)
  n = cfg['n']
  trees = sym_trees(n, SHAPES)
  wsym = sj.symarr('wt', (n,)) if cfg.get('weights') is None else np.zeros((0,), dtype=object)
  assumptions = [w >= 0 for w in wsym] if cfg.get('weights') is None else []
  sym = (trees, wsym)
  try:
    cexs = h.equiv(code_fn(cfg), ref_fn(cfg), sym, assumptions=assumptions)
  except Exception as e:   # pylint: disable=broad-except
    if jh.engine_fault(e):
      raise
    run.ob(name + ':raises', 'sat', detail=repr(e))
    cexs = [{'kind': 'raises', 'model': None, 'error': repr(e)}]
  for c in cexs[:1]:
    if c.get('model') is not None:
      t, w = jh.concrete_args(c['model'], sym)
      data = {'kind': 'value', 'cfg': cfg, 'trees': [{k: np.asarray(v).tolist() for k, v in tr.items()} for tr in t],
              'wsym': np.asarray(w).tolist()}
    else:
      data = {'kind': 'value', 'cfg': cfg, 'trees': [{k: (np.arange(int(np.prod(s)) or 1).reshape(s) + i + 1.0).tolist()
                                                      for k, s in SHAPES.items()} for i in range(n)],
              'wsym': [1.0] * n}
    ok, msg = replay_subprocess('C07', data)
    key = 'value:' + ','.join('%s=%s' % (k, cfg[k]) for k in sorted(cfg) if k != 'perm')
    run.violation(key, 'aggregation differs from the weighted mean for %s: %s' % (json.dumps(cfg), msg), data, ok)
  # hull containment when total weight > 0 (a consequence the statement names explicitly)
  return cexs


def run_hull(run, timeout):
  tree_util, _ = _imports()
  n = 3
  trees = sym_trees(n, {'a': (2,)})
  wsym = sj.symarr('wt', (n,))
  ctx = sj.Ctx()
  h = jh.Harness(run, 'hull', timeout)
  sym = (trees, wsym)
  for out, pcs, ctx, script in sj.explore(lambda t, w: tree_util.tree_mean(zip(t, list(w))), jh.abstract_of(sym), sym):
    assum = [w >= 0 for w in wsym] + [sum(wsym[i] for i in range(n)) > 0] + list(pcs)
    st, _ = sj.check_sat(assum + ctx.all_facts(), timeout)
    if st == 'unsat':
      continue
    goals = []
    for j in range(2):
      goals.append(('finite[%d]%s' % (j, script), sj.finite(out['a'][j])))
      o = sj.xr(out['a'][j]).v
      lo = z3.And(*[sj.zr(o) >= z3.If(z3.And(*[trees[i]['a'][j] <= trees[k]['a'][j] for k in range(n)]), trees[i]['a'][j], sj.zr(o))
                    for i in range(n)])
      hi = z3.And(*[sj.zr(o) <= z3.If(z3.And(*[trees[i]['a'][j] >= trees[k]['a'][j] for k in range(n)]), trees[i]['a'][j], sj.zr(o))
                    for i in range(n)])
      goals += [('min<=out[%d]%s' % (j, script), lo), ('out[%d]<=max%s' % (j, script), hi)]
    h.prove_all('hull', ctx, assum, goals)


def run_clip(run, timeout):
  tree_util, _ = _imports()
  h = jh.Harness(run, 'clip', timeout)
  tree = {'a': sj.symarr('t_a', (2,)), 'b': sj.symarr('t_b', ())}
  c = sj.symarr('c', ())
  sj.declare_sign(c[()], 'pos')       # clip bound > 0 (also asserted as an assumption)
  sym = (tree, c)
  ctx = sj.Ctx()
  out, pcs, _, _ = sj.run_symbolic(lambda t, cc: tree_util.tree_clip_by_global_norm(t, cc), jh.abstract_of(sym), sym, ctx=ctx)
  tin = [tree['a'][0], tree['a'][1], tree['b'][()]]
  tout = [out['a'][0], out['a'][1], out['b'][()]]
  assum = [c[()] > 0]
  goals = []
  for i, o in enumerate(tout):
    goals.append(('finite[%d]' % i, sj.finite(o)))
  vals = [sj.xr(o).v for o in tout]
  fin_all = sj.B_and(*[sj.finite(o) for o in tout])
  n2 = sum(sj.zr(v) * sj.zr(v) for v in vals)
  in2 = sum(t * t for t in tin)
  goals.append(('norm<=bound', z3.Implies(sj.zr(fin_all), n2 <= c[()] * c[()])))
  for i in range(3):
    goals.append(('same-orientation[%d]' % i, sj.zr(vals[i]) * tin[i] >= 0))
    goals.append(('nonzero-kept[%d]' % i, z3.Implies(tin[i] != 0, sj.zr(vals[i]) != 0)))
    for j in range(i + 1, 3):
      goals.append(('parallel[%d,%d]' % (i, j), sj.zr(vals[i]) * tin[j] == sj.zr(vals[j]) * tin[i]))
    goals.append(('identity-below-bound[%d]' % i, z3.Implies(in2 <= c[()] * c[()], sj.zr(vals[i]) == tin[i])))
  bad = h.prove_all('clip', ctx, assum, goals)
  h.witness_sat('reach', ctx, assum + [in2 > c[()] * c[()]])
  for nm, model in bad[:1]:
    t, cc = jh.concrete_args(model, sym)
    data = {'kind': 'clip', 'tree': {k: np.asarray(v).tolist() for k, v in t.items()}, 'c': float(cc)}
    ok, msg = replay_subprocess('C07', data)
    run.violation('clip:' + nm.split('[')[0], 'tree_clip_by_global_norm violates %s: %s' % (nm, msg), data, ok)


def run_donation(run):
  """Buffer donation dataflow (auxiliary; decided on the IR produced by tracing the real code with jit enabled)."""
  hits = 0
  scanned = 0
  for op in ('sum', 'mean', 'agg'):
    for n in (1, 2, 3):
      wsets = [None] if op == 'sum' else [list(w) for w in itertools.product([0.0, 1.0, 2.0], repeat=n)]
      for ws in wsets:
        cfg = {'op': op, 'n': n, 'weights': ws}
        trees = [{k: jnp.zeros(s, jnp.float32) for k, s in SHAPES.items()} for _ in range(n)]
        problems, ndon = donation_scan(lambda t: code_fn(cfg)(t, None), (trees,))
        scanned += 1
        nm = 'donation[%s,n=%d,w=%s]' % (op, n, ws)
        if problems:
          ok, msg = concrete_inputs_intact(cfg)
          run.ob(nm, 'sat', detail={'ir_findings': problems[:3], 'concrete': msg}, nontrivial=True)
          data = {'kind': 'donation', 'cfg': cfg}
          run.violation('donation:%s' % op, 'caller-owned array donated/aliased by %s with weights %s: %s; concrete run: %s'
                        % (op, ws, problems[0], msg), data, not ok)
          hits += 1
        else:
          run.ob(nm, 'unsat', detail=None, nontrivial=ndon > 0)
  run.extra['donation_dataflow'] = {'configs_scanned': scanned, 'findings': hits,
                                    'rule': 'no caller-owned input and no later-used value at a donated jit position; no output aliases an input'}


def replay(data):
  tree_util, _ = _imports()
  if data['kind'] == 'donation':
    ok, msg = concrete_inputs_intact(data['cfg'])
    return (not ok), msg
  if data['kind'] == 'clip':
    t = {k: jnp.asarray(np.asarray(v, dtype=np.float64)) for k, v in data['tree'].items()}
    c = data['c']
    out = tree_util.tree_clip_by_global_norm(t, c)
    lt = np.concatenate([np.asarray(v).reshape(-1) for v in jax.tree_util.tree_leaves(t)])
    lo = np.concatenate([np.asarray(v).reshape(-1) for v in jax.tree_util.tree_leaves(out)])
    norm = float(np.sqrt((lt ** 2).sum()))
    exp = lt if norm <= c else lt * (c / norm)
    if not np.all(np.isfinite(lo)):
      return True, 'clip(%s, %s) = %s (non-finite)' % (lt, c, lo)
    d = float(np.max(np.abs(lo - exp)))
    return d > 1e-6 * (1 + norm), 'clip(%s, %s) = %s, expected %s' % (lt, c, lo, exp)
  cfg = data['cfg']
  trees = [{k: jnp.asarray(np.asarray(v, dtype=np.float64)) for k, v in t.items()} for t in data['trees']]
  w = jnp.asarray(np.asarray(data['wsym'], dtype=np.float64)) if cfg.get('weights') is None else None
  wl = [float(x) for x in np.asarray(data['wsym'])] if cfg.get('weights') is None else None
  try:
    a = code_fn(cfg)(trees, wl)
  except Exception as e:   # pylint: disable=broad-except
    return True, 'real code raises %r' % (e,)
  b = ref_fn(cfg)(trees, w)
  if a is None:
    return True, 'real code returned None'
  d, where = jh.max_discrepancy(a, b)
  return d > 1e-6, 'discrepancy %.3g at %s' % (d, where)


def configs(tier):
  cfgs = []
  wvals = [0.0, 1.0, 2.0, 3.0]
  for n in (1, 2, 3):
    cfgs.append({'op': 'sum', 'n': n})
    cfgs.append({'op': 'sum', 'n': n, 'feed': 'gen'})
  quick_w = {1: [[0.0], [1.0], [2.0]], 2: [[1.0, 2.0], [0.0, 0.0], [2.0, 1.0], [0.0, 3.0], [1.0, 1.0]],
             3: [[1.0, 0.0, 2.0], [2.0, 1.0, 3.0], [0.0, 0.0, 0.0], [3.0, 2.0, 1.0]]}
  for n in (1, 2, 3):
    ws = quick_w[n] if tier == 'quick' else [list(w) for w in itertools.product(wvals, repeat=n)]
    for w in ws:
      cfgs.append({'op': 'mean', 'n': n, 'weights': w})
      cfgs.append({'op': 'agg', 'n': n, 'weights': w, 'feed': 'gen'})
    cfgs.append({'op': 'mean', 'n': n, 'feed': 'gen'})          # symbolic weights through forks
    cfgs.append({'op': 'agg', 'n': n, 'feed': 'iter'})
  # the mean is over the entries handed in, whatever their ids (a client sampled twice, a placeholder id for everyone)
  cfgs.append({'op': 'agg', 'n': 2, 'weights': [1.0, 2.0], 'feed': 'list', 'ids': 'same'})
  cfgs.append({'op': 'agg', 'n': 3, 'feed': 'gen', 'ids': 'same'})
  return cfgs


def check(run):
  timeout = 20.0 if run.tier == 'quick' else 120.0
  run.functions += ['fedjax.core.tree_util.tree_sum/tree_mean/tree_weight/tree_inverse_weight/tree_clip_by_global_norm/tree_l2_norm',
                    'fedjax.aggregators.aggregator.mean_aggregator().apply']
  run.trusted += ['z3', 'vf/symjx.py jaxpr interpreter', 'IR dataflow for donation (confirmed by a concrete is_deleted() run)']
  run.assumptions += ['floats read as reals; +-inf/NaN tracked by flags (x/0 etc.)', 'clip bound c > 0',
                      'weights >= 0 (symbolic through Python-level fork on `weight > 0.`, and concrete vectors)']
  cfgs = configs(run.tier)
  run.bounds = {'trees': '1..3', 'leaves': 2, 'leaf sizes': '<=2', 'weights': 'symbolic reals >= 0 and concrete vectors over {0,1,2,3}',
                'feeds': 'list, generator, iterator', 'configs': len(cfgs)}
  c0 = {'op': 'mean', 'n': 2, 'weights': [1.0, 2.0]}
  sym0 = (sym_trees(2, SHAPES), np.zeros((0,), dtype=object))
  ok, worst = jh.validate_translation(code_fn(c0), jh.abstract_of(sym0), run.seed)
  run.witness('translator-validation', 'translation', ok, 'worst %.2g' % worst)
  for cfg in cfgs:
    run_value(run, cfg, timeout)
  run_hull(run, timeout)
  run_clip(run, timeout)
  run_donation(run)
  # mutation witness: unweighted mean must be distinguishable from the code
  silent = type(run)(run.pid, run.tier, run.seed)
  hm = jh.Harness(silent, 'mutwit', timeout)
  cfgm = {'op': 'mean', 'n': 2, 'weights': [1.0, 2.0]}
  bad = hm.equiv(code_fn(cfgm), lambda t, w: jax.tree_util.tree_map(lambda *ls: sum(ls) / len(ls), *t),
                 (sym_trees(2, SHAPES), np.zeros((0,), dtype=object)))
  run.witness('mutation-witness(unweighted mean distinguishable)', 'mutation', bool(bad))
