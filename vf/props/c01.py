"""C01: a federated-averaging round equals its mathematical definition (Engine J)."""
import itertools
import json
import os
import subprocess
import sys
import time

import numpy as np

import jax
import jax.numpy as jnp

from .. import symjx as sj
from .. import jh
from .. import ufs

LEVEL = 'model_checking'
D = 2   # feature dimension of the concrete linear family


def _imports():
  import fedjax
  from fedjax.algorithms import fed_avg
  from fedjax.core import for_each_client, client_datasets, optimizers
  return fedjax, fed_avg, for_each_client, client_datasets, optimizers


def hparams_of(cfg):
  _, _, _, cds, _ = _imports()
  return cds.ShuffleRepeatBatchHParams(
      batch_size=cfg['batch'], num_epochs=cfg.get('epochs', 1), num_steps=cfg.get('steps'),
      drop_remainder=cfg.get('drop', False), seed=cfg.get('seed', 0))


def make_opt(kind, tag):
  _, _, _, _, optimizers = _imports()
  if kind == 'sgd':
    return optimizers.sgd(0.5 if tag == 'c' else 1.0)
  if kind == 'sgd2':
    return optimizers.sgd(0.25)
  if kind == 'momentum':
    return optimizers.sgd(0.5, momentum=0.5)
  if kind == 'adam':
    return optimizers.adam(0.5, b1=0.5, b2=0.5, eps=0.5)
  if kind == 'adagrad':
    return optimizers.adagrad(0.5)
  if kind == 'uf':
    ini, app = ufs.make_uf('optinit'), ufs.make_uf('optapply')
    return optimizers.Optimizer(
        init=lambda p: {'slot': ufs.uf_call(ini, p, p, tag=tag)},
        apply=lambda g, s, p: tuple(ufs.uf_call(app, (s, p), g, s, p, tag=tag)))
  raise ValueError(kind)


def make_grad(cfg, X, y):
  fedjax = _imports()[0]
  if cfg['grad'] in ('lin', 'linrng'):
    def pel(params, batch, rng):
      xb = X[batch['idx']]
      pred = xb @ params['w'] + params['b']
      loss = (pred - y[batch['idx']]) ** 2
      if cfg['grad'] == 'linrng':   # a loss that consumes its random key (dropout-like noise)
        loss = loss + jax.random.uniform(rng, ()) * jnp.sum(params['w'])
      return loss
    return fedjax.grad(pel)
  g = ufs.make_uf('grad')

  def grad_fn(params, batch, rng):
    return ufs.uf_call(g, params, params, jnp.asarray(batch['idx'], jnp.int32), rng)
  return grad_fn


def offsets(sizes):
  off, o = [], 0
  for n in sizes:
    off.append(o)
    o += n
  return off


def client_ids(cfg):
  return [b'c%02d' % i for i in range(len(cfg['sizes']))]


def datasets(cfg, rnd=0):
  """Client datasets of round `rnd` (round 2 may see a different population: cfg['sizes2'])."""
  cds = _imports()[3]
  sizes = cfg['sizes2'] if rnd == 1 and cfg.get('sizes2') else cfg['sizes']
  off = offsets(sizes)
  return [cds.ClientDataset({'idx': np.arange(o, o + n, dtype=np.int32)}) for o, n in zip(off, sizes)]


def code_fn(cfg):
  """The real fedjax code under test."""
  fedjax, fed_avg, fec, cds, optimizers = _imports()

  def fn(w, b, X, y, keys):
    grad_fn = make_grad(cfg, X, y)
    if cfg.get('backend') == 'pmap':
      # real pmap backend code; symbolically through the API model (pmap = vmap), in replays on the real jax.pmap when the
      # process has enough (forced host) devices
      from . import c02
      ndev = cfg.get('ndev', 2)
      if isinstance(w, jax.core.Tracer) or jax.local_device_count() < ndev:
        with c02.pmap_model(ndev):
          with fec.for_each_client_backend(fec.ForEachClientPmapBackend()):
            alg = fed_avg.federated_averaging(grad_fn, make_opt(cfg['copt'], 'c'), make_opt(cfg['sopt'], 's'), hparams_of(cfg))
          return _rounds(cfg, alg, w, b, keys)
      with fec.for_each_client_backend(fec.ForEachClientPmapBackend(jax.local_devices()[:ndev])):
        alg = fed_avg.federated_averaging(grad_fn, make_opt(cfg['copt'], 'c'), make_opt(cfg['sopt'], 's'), hparams_of(cfg))
      return _rounds(cfg, alg, w, b, keys)
    with fec.for_each_client_backend(cfg.get('backend', 'jit')):
      alg = fed_avg.federated_averaging(grad_fn, make_opt(cfg['copt'], 'c'), make_opt(cfg['sopt'], 's'),
                                        hparams_of(cfg))
    return _rounds(cfg, alg, w, b, keys)
  return fn


def _rounds(cfg, alg, w, b, keys):
  if True:
    state = alg.init({'w': w, 'b': b})
    ids = client_ids(cfg)
    diags = []
    for r in range(cfg.get('rounds', 1)):
      ds = datasets(cfg, r)
      order = cfg.get('order') or list(range(len(ids)))
      if r == 1:
        order = list(reversed(order))
      clients = [(ids[i], ds[i], keys[r, i]) for i in order]
      state, diag = alg.apply(state, clients)
      if sorted(diag.keys()) != sorted(ids[i] for i in order):
        raise AssertionError('diagnostics keys %r != participating client ids' % (sorted(diag.keys()),))
      diags.append({k.decode(): v for k, v in sorted(diag.items())})
    return {'params': state.params, 'opt_state': state.opt_state, 'diag': diags}


def ref_fn(cfg):
  """The definition: sequential local training per client, example-weighted mean of deltas, server step."""
  fedjax, fed_avg, fec, cds, optimizers = _imports()
  hp = hparams_of(cfg)
  ids = client_ids(cfg)

  def fn(w, b, X, y, keys):
    grad_fn = make_grad(cfg, X, y)
    copt, sopt = make_opt(cfg['copt'], 'c'), make_opt(cfg['sopt'], 's')
    params = {'w': w, 'b': b}
    sstate = sopt.init(params)
    diags = []
    for r in range(cfg.get('rounds', 1)):
      batch_lists = [[np.asarray(bt['idx']) for bt in d.shuffle_repeat_batch(hp)] if len(d) else [] for d in datasets(cfg, r)]
      sizes = cfg['sizes2'] if r == 1 and cfg.get('sizes2') else cfg['sizes']
      deltas = []
      for i in range(len(sizes)):
        p, s, k = params, copt.init(params), keys[r, i]
        for bidx in batch_lists[i]:
          k, use = jax.random.split(k)
          g = grad_fn(p, {'idx': bidx}, use)
          s, p = copt.apply(g, s, p)
        deltas.append(jax.tree_util.tree_map(lambda a, c: a - c, params, p))
      total = sum(sizes)
      if total > 0:
        mean = jax.tree_util.tree_map(lambda *ds: sum(n * d for n, d in zip(sizes, ds)) / total, *deltas)
      else:
        mean = jax.tree_util.tree_map(jnp.zeros_like, params)
      sstate, params = sopt.apply(mean, sstate, params)
      diags.append({ids[i].decode(): {'delta_l2_norm': jnp.sqrt(sum(jnp.sum(l * l) for l in jax.tree_util.tree_leaves(deltas[i])))}
                    for i in range(len(sizes))})
    return {'params': params, 'opt_state': sstate, 'diag': diags}
  return fn


def sym_inputs(cfg):
  n = max(sum(cfg['sizes']), 1)
  w = sj.symarr('w', (D,))
  b = sj.symarr('b', ())
  X = sj.symarr('X', (n, D))
  y = sj.symarr('y', (n,))
  keys = sj.rawkeyarr('k', (cfg.get('rounds', 1), len(cfg['sizes'])))
  return (w, b, X, y, keys)


def norm_compare(a, b):
  return sj.same(a, b)


def run_config(run, cfg, timeout):
  name = 'cfg[%s]' % ','.join('%s=%s' % (k, cfg[k]) for k in sorted(cfg))
  h = jh.Harness(run, name, timeout)
  sym = sym_inputs(cfg)
  try:
    cexs = h.equiv(code_fn(cfg), ref_fn(cfg), sym)
  except sj.Unsupported:
    raise
  except Exception as e:   # the code under test raised while being executed symbolically
    if jh.engine_fault(e):
      raise
    cexs = [{'kind': 'raises', 'model': None, 'error': repr(e)}]
    run.ob(name + ':raises', 'sat', detail=repr(e))
  return cexs, sym


def confirm(run, cfg, cex, sym):
  """Replay a counterexample against the real code in a fresh x64 process."""
  if cfg['grad'] not in ('lin', 'linrng') or 'uf' in (cfg['copt'], cfg['sopt']):
    return None
  if cex.get('model') is not None:
    args = jh.concrete_args(cex['model'], sym)
    data = {'cfg': cfg, 'args': [np.asarray(a).tolist() for a in args]}
  else:
    rng = np.random.RandomState(0)
    data = {'cfg': cfg, 'args': [rng.randint(-3, 4, size=a.shape).tolist() if i < 4 else np.zeros(a.shape, int).tolist()
                                 for i, a in enumerate(sym)]}
  key = 'cfg:' + ','.join('%s=%s' % (k, cfg[k]) for k in sorted(cfg) if k not in ('order',))
  env = {'XLA_FLAGS': '--xla_force_host_platform_device_count=%d' % cfg.get('ndev', 2)} if cfg.get('backend') == 'pmap' else None
  ok, msg = replay_subprocess('C01', data, env)
  run.violation(key, 'FedAvg round differs from its definition for %s: %s' % (json.dumps(cfg), msg), data, ok)
  return ok


def replay_subprocess(pid, data, extra_env=None):
  import tempfile
  from ..common import VERIF
  d = os.path.join(VERIF, 'replays', pid)
  os.makedirs(d, exist_ok=True)
  p = os.path.join(d, '_pending_%d.json' % os.getpid())
  with open(p, 'w') as f:
    json.dump(data, f)
  env = dict(os.environ, JAX_ENABLE_X64='1')
  env.update(extra_env or {})
  r = subprocess.run([sys.executable, '-m', 'vf.main', pid, '--replay', p], env=env, capture_output=True, text=True,
                     cwd=VERIF, timeout=600)
  os.remove(p)
  lines = [l for l in r.stdout.splitlines() if l.startswith(('REPRODUCED', 'NOT-REPRODUCED'))]
  return r.returncode == 3, (lines[-1] if lines else (r.stderr[-500:] or r.stdout[-500:]))


def replay(data):
  cfg = data['cfg']
  args = [np.asarray(a) for a in data['args']]
  args = [a.astype(np.float64) for a in args[:4]] + [np.asarray(args[4], dtype=np.uint32)]
  try:
    outA = code_fn(cfg)(*[jnp.asarray(a) for a in args])
  except Exception as e:   # pylint: disable=broad-except
    try:
      ref_fn(cfg)(*[jnp.asarray(a) for a in args])
    except Exception as e2:   # pylint: disable=broad-except
      return False, 'reference raised too: %r' % (e2,)
    return True, 'real code raises %r' % (e,)
  outB = ref_fn(cfg)(*[jnp.asarray(a) for a in args])
  d, where = jh.max_discrepancy(outA, outB)
  return d > 1e-6, 'discrepancy %.3g at %s' % (d, where)


# ----------------------------------------------------------------------------------------
def configs(tier):
  cfgs = []
  base = dict(grad='lin', copt='sgd', sopt='sgd', batch=2, backend='jit')
  # client populations incl. empty clients and sizes not divisible by the batch size
  pops = [[3, 2], [2, 0, 3], [0, 0], [1], [3, 1, 2]]
  for sizes in pops:
    cfgs.append(dict(base, sizes=sizes))
  cfgs.append(dict(base, sizes=[3, 2], batch=1))
  cfgs.append(dict(base, sizes=[3, 2], drop=True))
  cfgs.append(dict(base, sizes=[2, 0, 3], backend='debug'))
  cfgs.append(dict(base, sizes=[2, 0, 3], backend='pmap', ndev=2))
  cfgs.append(dict(base, sizes=[3, 1, 2], backend='pmap', ndev=2, grad='uf', copt='uf', sopt='uf'))
  cfgs.append(dict(base, sizes=[3, 2], copt='momentum', sopt='momentum', rounds=2))
  cfgs.append(dict(base, sizes=[3, 2], grad='linrng', batch=1))
  cfgs.append(dict(base, sizes=[2, 1], sizes2=[0, 0], sopt='momentum', rounds=2))      # a round without any example after a round with data
  cfgs.append(dict(base, sizes=[1, 2, 3], backend='pmap', ndev=2, order=[1, 0, 2]))
  cfgs.append(dict(base, sizes=[1, 3], backend='pmap', ndev=2))             # a pmap block whose first client is not its longest
  cfgs.append(dict(base, sizes=[0, 3, 2], backend='pmap', ndev=2))          # ... and one led by an empty client
  cfgs.append(dict(base, sizes=[3, 1], drop=True, epochs=2))                # drop_remainder over several epochs, size % batch != 0
  cfgs.append(dict(base, sizes=[2, 0, 3], grad='uf', copt='uf', sopt='uf'))
  cfgs.append(dict(base, sizes=[3, 2], grad='uf', copt='uf', sopt='uf', rounds=2))
  cfgs.append(dict(base, sizes=[0, 0], grad='uf', copt='uf', sopt='sgd'))
  # every client order for a 3-client population
  for order in itertools.permutations(range(3)):
    if list(order) != [0, 1, 2]:
      cfgs.append(dict(base, sizes=[2, 0, 3], order=list(order)))
  if tier == 'thorough':
    for sizes in ([4, 3], [1, 1, 1], [4, 0, 1], [0, 3]):
      for batch in (1, 2, 3):
        cfgs.append(dict(base, sizes=sizes, batch=batch))
        cfgs.append(dict(base, sizes=sizes, batch=batch, drop=True))
    for steps in (0, 1, 3):
      cfgs.append(dict(base, sizes=[3, 2], steps=steps, epochs=None))
      cfgs.append(dict(base, sizes=[3, 2], steps=steps, epochs=2))
    cfgs.append(dict(base, sizes=[3, 2], epochs=2))
    cfgs.append(dict(base, sizes=[3, 2], epochs=2, grad='uf', copt='uf', sopt='uf'))
    cfgs.append(dict(base, sizes=[3, 1, 2], backend='debug', copt='momentum', sopt='momentum', rounds=2))
    cfgs.append(dict(base, sizes=[2, 1], copt='sgd', sopt='adam', rounds=2))
    cfgs.append(dict(base, sizes=[2, 1], copt='adagrad', sopt='sgd'))
    cfgs.append(dict(base, sizes=[3, 2, 1], grad='uf', copt='uf', sopt='uf', rounds=2, backend='debug'))
    for order in itertools.permutations(range(3)):
      cfgs.append(dict(base, sizes=[2, 1, 3], order=list(order), grad='uf', copt='uf', sopt='uf'))
  return cfgs


def check(run):
  tier = run.tier
  timeout = 20.0 if tier == 'quick' else 120.0
  run.functions += ['fedjax.algorithms.fed_avg.federated_averaging(...).init/apply',
                    'fedjax.core.for_each_client (jit + debug backends)', 'fedjax.core.tree_util.*',
                    'fedjax.core.client_datasets.ShuffleRepeatBatchView', 'fedjax.core.models.grad',
                    'fedjax.core.optimizers (optax sgd/momentum/adam/adagrad)']
  run.trusted += ['z3', 'vf/symjx.py jaxpr interpreter (validated against real JAX each run)',
                  'real-number reading of float32 incl. constant de-rounding']
  run.assumptions += ['floats are read as reals (the property says "up to floating-point rounding")',
                      'float constants are read as the simplest rational in their rounding interval',
                      'batch composition is taken from the real ShuffleRepeatBatchView (C04 covers it)',
                      'pmap backend: see C02']
  cfgs = configs(tier)
  run.bounds = {'clients': '<=3', 'client sizes': '0..4', 'batch': '1..3', 'rounds': '<=2', 'feature dim': D,
                'optimizers': 'SGD, momentum, Adam, Adagrad (optax), uninterpreted', 'configs': len(cfgs)}
  # translator validation on the first concrete config
  c0 = cfgs[0]
  sym0 = sym_inputs(c0)
  abs0 = jh.abstract_of(sym0)
  ok, worst = jh.validate_translation(code_fn(c0), abs0, run.seed)
  run.witness('translator-validation(code)', 'translation', ok, 'worst %.2g' % worst)
  ok, worst = jh.validate_translation(ref_fn(c0), abs0, run.seed + 1)
  run.witness('translator-validation(reference)', 'translation', ok, 'worst %.2g' % worst)
  run.extra['translator_validation_worst_rel_err'] = worst
  for cfg in cfgs:
    cexs, sym = run_config(run, cfg, timeout)
    if cexs:
      replayable = confirm(run, cfg, cexs[0], sym)
      if replayable is None:
        # uninterpreted family: look for the same failure in the replayable concrete family
        twin = dict(cfg, grad='linrng', copt='momentum' if cfg['copt'] == 'uf' else cfg['copt'],
                    sopt='momentum' if cfg['sopt'] == 'uf' else cfg['sopt'])
        c2, sym2 = run_config(run, twin, timeout)
        if c2:
          confirm(run, twin, c2[0], sym2)
        else:
          run.fail('counterexample only in the uninterpreted family (not replayable): %s' % json.dumps(cfg))
  # mutation witness: a deliberately wrong reference (unweighted mean) must be distinguishable
  cfgm = dict(grad='lin', copt='sgd', sopt='sgd', batch=2, backend='jit', sizes=[3, 2])
  symm = sym_inputs(cfgm)

  def wrong_ref(w, b, X, y, keys):
    out = ref_fn(dict(cfgm))(w, b, X, y, keys)
    return out
  # unweighted mean: same reference with sizes overridden in the weighting only
  import copy
  silent = type(run)(run.pid, run.tier, run.seed)
  hm = jh.Harness(silent, 'mutwit', timeout)
  bad = _unweighted_ref(cfgm)
  cm = hm.equiv(code_fn(cfgm), bad, symm, select=lambda p: 'params' in p)
  run.witness('mutation-witness(unweighted mean distinguishable)', 'mutation', bool(cm))


def _unweighted_ref(cfg):
  good = ref_fn(cfg)
  sizes = cfg['sizes']

  def fn(w, b, X, y, keys):
    cfg2 = dict(cfg)
    # recompute with all weights 1 by calling the reference on a config whose 'sizes' for weighting are ones
    fedjax, fed_avg, fec, cds, optimizers = _imports()
    hp = hparams_of(cfg)
    batch_lists = [[np.asarray(bt['idx']) for bt in d.shuffle_repeat_batch(hp)] for d in datasets(cfg)]
    grad_fn = make_grad(cfg, X, y)
    copt, sopt = make_opt(cfg['copt'], 'c'), make_opt(cfg['sopt'], 's')
    params = {'w': w, 'b': b}
    sstate = sopt.init(params)
    deltas = []
    for i in range(len(sizes)):
      p, s, k = params, copt.init(params), keys[0, i]
      for bidx in batch_lists[i]:
        k, use = jax.random.split(k)
        s, p = copt.apply(grad_fn(p, {'idx': bidx}, use), s, p)
      deltas.append(jax.tree_util.tree_map(lambda a, c: a - c, params, p))
    mean = jax.tree_util.tree_map(lambda *ds: sum(ds) / len(ds), *deltas)
    sstate, params = sopt.apply(mean, sstate, params)
    return {'params': params, 'opt_state': sstate, 'diag': good(w, b, X, y, keys)['diag']}
  return fn
