"""C06: masked gradients and losses ignore padding and batch geometry (Engine J)."""
import json
import math
from fractions import Fraction

import numpy as np
import z3

import jax
import jax.numpy as jnp

from .. import symjx as sj
from .. import jh
from .. import ufs
from .c01 import replay_subprocess

LEVEL = 'model_checking'
D = 2
LAMBDA = 0.5


def _fx():
  import fedjax
  from fedjax.core import models, client_datasets, regularizers, tree_util, for_each_client
  from fedjax.algorithms import mime, agnostic_fed_avg
  return fedjax, models, client_datasets, regularizers, tree_util, mime, agnostic_fed_avg


def make_loss(fam):
  """per_example_loss(params, batch, rng) over batch['x'] rows (+ batch['t'] targets); rng ignored."""
  if fam == 'uf':
    loss, _, _ = ufs.make_uf_loss('loss')

    def pel(params, batch, rng):
      if batch['x'].shape[0] == 0:
        return jnp.zeros((0,))
      return jnp.stack([loss(params, (batch['x'][i], batch['t'][i])) for i in range(batch['x'].shape[0])])

    def grad_one(params, x, t):
      return loss.grad(params, (x, t))

    def loss_one(params, x, t):
      return loss(params, (x, t))
    return pel, grad_one, loss_one

  def one(params, x, t):
    return (jnp.dot(x, params['w']) + params['b'] - t) ** 2

  def pel(params, batch, rng):
    return (batch['x'] @ params['w'] + params['b'] - batch['t']) ** 2

  def grad_one(params, x, t):
    r = jnp.dot(x, params['w']) + params['b'] - t
    return {'w': 2 * r * x, 'b': 2 * r}
  return pel, grad_one, one


def reg_of(cfg):
  _, _, _, regularizers, _, _, _ = _fx()
  return regularizers.l2_regularizer(LAMBDA) if cfg.get('reg') else None


def reg_value(params):
  return LAMBDA * sum(jnp.sum(l * l) for l in jax.tree_util.tree_leaves(params))


def reg_grad(params):
  return jax.tree_util.tree_map(lambda l: 2 * LAMBDA * l, params)


def sym_inputs(N):
  w = sj.symarr('w', (D,))
  b = sj.symarr('b', ())
  X = sj.symarr('X', (N, D))
  Tg = sj.symarr('T', (N,))
  return w, b, X, Tg


# ---- A: gradient of one padded batch with symbolic mask --------------------------------------------
def grad_code(cfg):
  fedjax, models = _fx()[:2]
  pel, _, _ = make_loss(cfg['fam'])

  def fn(w, b, X, Tg, Mk, key):
    batch = {'x': X, 't': Tg}
    if cfg.get('mask', True):
      batch['__mask__'] = Mk
    return fedjax.grad(pel, reg_of(cfg))({'w': w, 'b': b}, batch, key)
  return fn


def grad_ref(cfg):
  _, grad_one, _ = make_loss(cfg['fam'])

  def fn(w, b, X, Tg, Mk, key):
    params = {'w': w, 'b': b}
    n = X.shape[0]
    m = Mk.astype(jnp.float32) if cfg.get('mask', True) else jnp.ones((n,))
    gs = [grad_one(params, X[i], Tg[i]) for i in range(n)]
    tot = jnp.sum(m)
    safe = jnp.where(tot > 0, tot, 1.0)
    g = jax.tree_util.tree_map(lambda *ls: jnp.where(tot > 0, sum(m[i] * ls[i] for i in range(n)) / safe, 0.0), *gs)
    if cfg.get('reg'):
      g = jax.tree_util.tree_map(lambda a, r: a + r, g, reg_grad(params))
    return g
  return fn


# ---- B: average loss over explicit batches with symbolic mask ---------------------------------------
def avg_code(cfg):
  fedjax, models = _fx()[:2]
  pel, _, _ = make_loss(cfg['fam'])
  partition = cfg['partition']

  def fn(w, b, X, Tg, Mk, key):
    params = {'w': w, 'b': b}
    bs = []
    for idxs in partition:
      idx = np.asarray(idxs, np.int32)
      bt = {'x': X[idx], 't': Tg[idx]}
      if cfg.get('mask', True):
        bt['__mask__'] = Mk[idx]
      bs.append(bt)
    if cfg['api'] == 'evaluate_average_loss':
      return models.evaluate_average_loss(params, bs, key, pel, reg_of(cfg))
    ev = models.AverageLossEvaluator(pel, reg_of(cfg))
    if cfg['api'] == 'global':
      ((cid, out),) = list(ev.evaluate_global_params(params, [(b'c', bs, key)]))
    else:
      ((cid, out),) = list(ev.evaluate_per_client_params([(b'c', bs, key, params)]))
    return out
  return fn


def avg_ref(cfg):
  _, _, loss_one = make_loss(cfg['fam'])
  rows = [i for idxs in cfg['partition'] for i in idxs]

  def fn(w, b, X, Tg, Mk, key):
    params = {'w': w, 'b': b}
    m = Mk.astype(jnp.float32) if cfg.get('mask', True) else jnp.ones(Mk.shape)
    tot = sum(m[i] for i in rows) if rows else jnp.zeros(())
    acc = sum(m[i] * loss_one(params, X[i], Tg[i]) for i in rows) if rows else jnp.zeros(())
    out = jnp.where(tot > 0, acc / jnp.where(tot > 0, tot, 1.0), 0.0)
    if cfg.get('reg'):
      out = out + reg_value(params)
    return out
  return fn


# ---- C: dataset-level passes over real padded_batch geometries -------------------------------------
def padded_batches(n, batch_size, buckets, N):
  cds = _fx()[2]
  ds = cds.ClientDataset({'idx': np.arange(n, dtype=np.int32)})
  out = []
  for bt in ds.padded_batch(batch_size=batch_size, num_batch_size_buckets=buckets):
    mask = np.asarray(bt['__mask__'])
    idx = np.where(mask, np.asarray(bt['idx']), N).astype(np.int32)   # padded rows -> the arbitrary extra row N
    out.append((idx, mask))
  return out


def geo_code(cfg):
  fedjax, models, cds, regularizers, tree_util, mime, agnostic = _fx()
  pel, _, _ = make_loss(cfg['fam'])
  sizes, N = cfg['sizes'], sum(cfg['sizes'])

  def fn(w, b, X, Tg, Dm, key):
    params = {'w': w, 'b': b}
    clients = []
    off = 0
    for ci, n in enumerate(sizes):
      bs = [{'x': X[np.where(m, idx + off, N)], 't': Tg[np.where(m, idx + off, N)],
             'domain_id': Dm[np.where(m, idx + off, N)], '__mask__': m}
            for idx, m in padded_batches(n, cfg['batch'], cfg['buckets'], 0)]
      clients.append((b'c%d' % ci, bs, key))
      off += n
    if cfg['what'] == 'mime_grads':
      f = mime.create_grads_for_each_client(models.grad(pel, reg_of(cfg)))
      gsum, nsum = tree_util.tree_sum(co for _, co in f(params, clients))
      return tree_util.tree_inverse_weight(gsum, nsum)
    if cfg['what'] == 'avg_loss':
      ev = models.AverageLossEvaluator(pel, reg_of(cfg))
      return {cid.decode(): v for cid, v in ev.evaluate_global_params(params, clients)}
    if cfg['what'] == 'domain_metrics':
      f = agnostic.create_domain_metrics_for_each_client(pel, 2)
      alpha = jnp.asarray([0.25, 0.75])
      res = dict(f({'params': params, 'alpha': alpha}, clients))
      return {cid.decode(): v for cid, v in res.items()}
    raise ValueError(cfg['what'])
  return fn


def geo_ref(cfg):
  _, grad_one, loss_one = make_loss(cfg['fam'])
  sizes = cfg['sizes']

  def fn(w, b, X, Tg, Dm, key):
    params = {'w': w, 'b': b}
    N = sum(sizes)
    if cfg['what'] == 'mime_grads':
      if N == 0:
        return jax.tree_util.tree_map(jnp.zeros_like, params)
      gs = [grad_one(params, X[i], Tg[i]) for i in range(N)]
      g = jax.tree_util.tree_map(lambda *ls: sum(ls) / N, *gs)
      if cfg.get('reg'):
        g = jax.tree_util.tree_map(lambda a, r: a + r, g, reg_grad(params))
      return g
    out = {}
    off = 0
    for ci, n in enumerate(sizes):
      rows = range(off, off + n)
      if cfg['what'] == 'avg_loss':
        v = (sum(loss_one(params, X[i], Tg[i]) for i in rows) / n) if n else jnp.zeros(())
        if cfg.get('reg'):
          v = v + reg_value(params)
        out['c%d' % ci] = v
      else:
        dl = [sum([jnp.where(Dm[i] == d, loss_one(params, X[i], Tg[i]), 0.0) for i in rows], jnp.zeros(())) for d in range(2)]
        dn = [sum([jnp.where(Dm[i] == d, 1.0, 0.0) for i in rows], jnp.zeros(())) for d in range(2)]
        out['c%d' % ci] = {'beta': 0.25 * dn[0] + 0.75 * dn[1], 'domain_loss': jnp.stack(dl), 'domain_num': jnp.stack(dn)}
      off += n
    return out
  return fn


# ---- D: the algorithms that consume these passes (Mime / MimeLite server gradient, agnostic domain weights) ----------
def alg_code(cfg):
  fedjax, models, cds, regularizers, tree_util, mime, agnostic = _fx()
  from fedjax.algorithms import mime_lite
  from fedjax.core import optimizers
  pel, _, _ = make_loss('lin')
  sizes = cfg['sizes']
  DOM = [0, 1, 0, 0, 1, 0, 0, 1]   # unequal domain sizes (a common shift of all domain losses must not cancel)

  def fn(w, b, X, Tg, Dm, key):
    params = {'w': w, 'b': b}

    def pel_idx(p, batch, rng):
      idx = batch['idx']
      return (X[idx] @ p['w'] + p['b'] - Tg[idx]) ** 2
    clients, off = [], 0
    for ci, n in enumerate(sizes):
      ds = cds.ClientDataset({'idx': np.arange(off, off + n, dtype=np.int32), 'domain_id': np.asarray(DOM[off:off + n], np.int32)})
      clients.append((b'c%d' % ci, ds, jax.random.fold_in(key, ci) if False else key))
      off += n
    hp_train = cds.ShuffleRepeatBatchHParams(batch_size=2, num_epochs=1, seed=0)
    hp_pad = cds.PaddedBatchHParams(batch_size=cfg['batch'], num_batch_size_buckets=cfg['buckets'])
    base = optimizers.sgd(0.5, momentum=0.5)
    if cfg['what'] == 'mime_lite_opt':
      alg = mime_lite.mime_lite(pel_idx, base, hp_train, hp_pad, server_learning_rate=1.0, regularizer=reg_of(cfg))
      new, _ = alg.apply(alg.init(params), clients)
      return [l for l in jax.tree_util.tree_leaves(new.opt_state) if np.dtype(l.dtype).kind == 'f']
    if cfg['what'] == 'mime_opt':
      alg = mime.mime(pel_idx, base, hp_train, hp_pad, server_learning_rate=1.0, regularizer=reg_of(cfg))
      new, _ = alg.apply(alg.init(params), clients)
      return [l for l in jax.tree_util.tree_leaves(new.opt_state) if np.dtype(l.dtype).kind == 'f']
    if cfg['what'] == 'agnostic_weights':
      alg = agnostic.agnostic_federated_averaging(pel_idx, optimizers.sgd(0.5), optimizers.sgd(1.0), hp_train, hp_pad, init_domain_weights=[0.25, 0.75],
                                                  domain_learning_rate=0.5, domain_window_size=1, regularizer=reg_of(cfg))
      new, _ = alg.apply(alg.init(params), clients)
      return {'weights': new.domain_weights, 'window': jnp.stack(new.domain_window)}
    raise ValueError(cfg['what'])
  return fn, DOM


def alg_ref(cfg):
  from fedjax.core import optimizers
  _, grad_one, loss_one = make_loss('lin')
  sizes = cfg['sizes']

  def fn(w, b, X, Tg, Dm, key):
    params = {'w': w, 'b': b}
    N = sum(sizes)
    DOM = [0, 1, 0, 0, 1, 0, 0, 1]   # unequal domain sizes (a common shift of all domain losses must not cancel)
    if cfg['what'] in ('mime_lite_opt', 'mime_opt'):
      gs = [grad_one(params, X[i], Tg[i]) for i in range(N)]
      g = jax.tree_util.tree_map(lambda *ls: sum(ls) / N, *gs)       # full-batch gradient over the cohort
      if cfg.get('reg'):
        g = jax.tree_util.tree_map(lambda a, r: a + r, g, reg_grad(params))
      base = optimizers.sgd(0.5, momentum=0.5)
      st, _ = base.apply(g, base.init(params), params)
      return [l for l in jax.tree_util.tree_leaves(st) if np.dtype(l.dtype).kind == 'f']
    dl = [sum([loss_one(params, X[i], Tg[i]) for i in range(N) if DOM[i] == d], jnp.zeros(())) for d in range(2)]
    dn = [float(sum(1 for i in range(N) if DOM[i] == d)) for d in range(2)]
    mean = [dl[d] / dn[d] if dn[d] else jnp.zeros(()) for d in range(2)]
    w0 = [0.25, 0.75]
    un = [w0[d] * jnp.exp(0.5 * mean[d]) for d in range(2)]
    tot = un[0] + un[1]
    return {'weights': jnp.stack([un[0] / tot, un[1] / tot]), 'window': jnp.asarray([dn])}
  return fn


# ---------------------------------------------------------------------------------------------------
def run_one(run, kind, cfg, timeout):
  name = '%s[%s]' % (kind, ','.join('%s=%s' % (k, cfg[k]) for k in sorted(cfg)))
  h = jh.Harness(run, name, timeout)
  if kind == 'alg':
    N = sum(cfg['sizes'])
    w, b, X, Tg = sym_inputs(N)
    Dm = np.zeros((0,), dtype=object)
    sym = (w, b, X, Tg, Dm, sj.rawkeyarr('k'))
    assum = []
    code, ref = alg_code(cfg)[0], alg_ref(cfg)
  elif kind == 'geo':
    N = sum(cfg['sizes'])
    w, b, X, Tg = sym_inputs(N + 1)
    Dm = sj.symarr('Dm', (N + 1,), 'i')
    sym = (w, b, X, Tg, Dm, sj.rawkeyarr('k'))
    assum = []
    for d in Dm:
      assum += [d >= 0, d < 2]
    code, ref = geo_code(cfg), geo_ref(cfg)
  else:
    N = cfg['N']
    w, b, X, Tg = sym_inputs(N)
    Mk = sj.symarr('M', (N,), 'b')
    if cfg.get('maskbits') is not None:   # concrete family: mask patterns enumerated, values stay symbolic
      Mk = np.empty((N,), dtype=object)
      for i, v in enumerate(cfg['maskbits']):
        Mk[i] = bool(v)
    sym = (w, b, X, Tg, Mk, sj.rawkeyarr('k'))
    assum = []
    code, ref = (grad_code(cfg), grad_ref(cfg)) if kind == 'grad' else (avg_code(cfg), avg_ref(cfg))
  try:
    cexs = h.equiv(code, ref, sym, assumptions=assum)
  except Exception as e:   # pylint: disable=broad-except
    if jh.engine_fault(e):
      raise
    run.ob(name + ':raises', 'sat', detail=repr(e)[:200])
    cexs = [{'model': None}]
  if cexs:
    c = cexs[0]
    replayable = cfg['fam'] == 'lin'
    if not replayable:
      return cexs
    if c.get('model') is not None:
      args = list(jh.concrete_args(c['model'], sym))
      if cfg.get('maskbits') is not None:
        args[4] = np.asarray(cfg['maskbits'], bool)
    else:
      rng = np.random.RandomState(0)
      args = [rng.randint(-2, 3, size=a.shape) if i < 4 else (np.ones(a.shape, bool) if kind != 'geo' else np.zeros(a.shape, int))
              for i, a in enumerate(sym[:-1])] + [np.zeros((2,), np.uint32)]
    data = {'kind': kind, 'cfg': cfg, 'args': [np.asarray(a).tolist() for a in args]}
    ok, msg = replay_subprocess('C06', data)
    if not ok and c.get('model') is not None:
      # the first model did not replay: look for a tamer counterexample (inputs in [-1, 1]) before calling it an encoding gap
      silent = type(run)(run.pid, run.tier, run.seed)
      sj.FALSIFY['scale'] = Fraction(1, 5)
      try:
        c2 = jh.Harness(silent, name, timeout).equiv(code, ref, sym, assumptions=assum + jh.box_assumptions(sym[:4]))
      finally:
        sj.FALSIFY['scale'] = Fraction(1)
      c2 = [x for x in c2 if x.get('model') is not None]
      if c2:
        args2 = list(jh.concrete_args(c2[0]['model'], sym))
        if cfg.get('maskbits') is not None:
          args2[4] = np.asarray(cfg['maskbits'], bool)
        data2 = {'kind': kind, 'cfg': cfg, 'args': [np.asarray(a).tolist() for a in args2]}
        ok2, msg2 = replay_subprocess('C06', data2)
        if ok2:
          data, ok, msg = data2, ok2, msg2 + ' (second counterexample, inputs in [-1, 1])'
    key = '%s:%s' % (kind, ','.join('%s=%s' % (k, cfg[k]) for k in sorted(cfg) if k in ('what', 'api', 'reg', 'mask')))
    if kind == 'alg':
      args[4] = np.zeros((0,))
    run.violation(key, '%s differs from the unpadded reference for %s: %s' % (kind, json.dumps(cfg), msg), data, ok)
  return cexs


def replay(data):
  kind, cfg = data['kind'], data['cfg']
  args = data['args']
  fl = [jnp.asarray(np.asarray(a, dtype=np.float64)) for a in args[:4]]
  if kind == 'alg':
    extra = [jnp.zeros((0,), jnp.int32)]
    code, ref = alg_code(cfg)[0], alg_ref(cfg)
  elif kind == 'geo':
    extra = [jnp.asarray(np.asarray(args[4], dtype=np.int32))]
    code, ref = geo_code(cfg), geo_ref(cfg)
  else:
    extra = [jnp.asarray(np.asarray(args[4], dtype=bool))]
    code, ref = (grad_code(cfg), grad_ref(cfg)) if kind == 'grad' else (avg_code(cfg), avg_ref(cfg))
  key = jax.random.PRNGKey(0)
  try:
    a = code(*fl, *extra, key)
  except Exception as e:   # pylint: disable=broad-except
    return True, 'real code raises %r' % (e,)
  b = ref(*fl, *extra, key)
  d, where = jh.max_discrepancy(a, b)
  return d > 1e-6, 'discrepancy %.3g at %s' % (d, where)


def configs(tier):
  out = []
  fams = ('uf', 'lin')
  for fam in fams:
    for reg in (False, True):
      for N in ((1, 3) if tier == 'quick' else (1, 2, 3, 4)):
        out.append(('grad', dict(fam=fam, reg=reg, N=N)))
      out.append(('grad', dict(fam=fam, reg=reg, N=2, mask=False)))
      parts = [[[0, 1], [2]], [[2], [], [0, 1]], []] if tier == 'quick' else [[[0, 1], [2]], [[2], [], [0, 1]], [], [[0, 1, 2]], [[1], [0], [2]]]
      for part in parts:
        for api in ('evaluate_average_loss', 'global', 'per_client'):
          if tier == 'quick' and api == 'per_client' and part != parts[0]:
            continue
          out.append(('avg', dict(fam=fam, reg=reg, N=3, partition=part, api=api)))
      out.append(('avg', dict(fam=fam, reg=reg, N=3, partition=[[0, 1], [2]], api='evaluate_average_loss', mask=False)))
      geos = [(2, 1), (3, 2), (4, 2)] if tier == 'quick' else [(1, 1), (2, 1), (2, 2), (3, 1), (3, 2), (4, 1), (4, 3), (5, 2)]
      pops = [[3, 0, 1]] if tier == 'quick' else [[3, 0, 1], [4], [2, 2], [0, 0]]
      for sizes in pops:
        for (bsz, bk) in geos:
          for what in ('mime_grads', 'avg_loss', 'domain_metrics'):
            if what == 'domain_metrics' and reg:
              continue
            out.append(('geo', dict(fam=fam, reg=reg, sizes=sizes, batch=bsz, buckets=bk, what=what)))
  # the algorithms that consume the passes: server gradient of Mime/MimeLite (example-weighted over the cohort, regulariser once)
  # and the domain weights of agnostic FedAvg, for unequal client sizes and several padded geometries
  for reg in (False, True):
    for (bsz, bk) in ([(2, 1), (3, 2)] if tier == 'quick' else [(1, 1), (2, 1), (3, 2), (4, 2), (5, 3)]):
      for what in ('mime_lite_opt', 'mime_opt', 'agnostic_weights'):
        out.append(('alg', dict(fam='lin', reg=reg, sizes=[3, 0, 1], batch=bsz, buckets=bk, what=what)))
  return out


def expand_masks(cfgs):
  import itertools
  out = []
  for kind, cfg in cfgs:
    if cfg['fam'] == 'lin' and kind in ('grad', 'avg') and cfg.get('mask', True):
      for bits in itertools.product([False, True], repeat=cfg['N']):
        out.append((kind, dict(cfg, maskbits=list(bits))))
    else:
      out.append((kind, cfg))
  return out


def check(run):
  timeout = 20.0 if run.tier == 'quick' else 120.0
  cfgs = expand_masks(configs(run.tier))
  run.functions += ['fedjax.core.models.grad (real jax.grad through an uninterpreted differentiable loss and a quadratic loss)',
                    'models.evaluate_average_loss / AverageLossEvaluator', 'util.safe_div', 'regularizers.l2_regularizer',
                    'mime.create_grads_for_each_client + tree_sum + tree_inverse_weight',
                    'agnostic_fed_avg.create_domain_metrics_for_each_client', 'client_datasets.PaddedBatchView (geometry)']
  run.trusted += ['z3', 'vf/symjx.py interpreter', 'uninterpreted loss with JVP rule <dloss(params, example), dparams>']
  run.assumptions += ['the per-example loss ignores its random key (batch geometry changes which key a row sees)',
                      'mask bits symbolic for single-batch and explicit-batch queries; geometry queries use the real padded_batch',
                      'padded rows carry arbitrary symbolic content (a dedicated extra row)',
                      'create_domain_metrics_for_each_client is checked with regularizer=None (as the public algorithm calls it)']
  run.bounds = {'batch rows': '<=4', 'dataset rows': '<=4', 'geometries (batch,buckets)': '(1..5, 1..3)', 'domains': 2, 'configs': len(cfgs)}
  c0 = dict(fam='lin', reg=True, N=3)
  w, b, X, Tg = sym_inputs(3)
  sym0 = (w, b, X, Tg, sj.symarr('M', (3,), 'b'), sj.rawkeyarr('k'))
  ok, worst = jh.validate_translation(grad_code(c0), jh.abstract_of(sym0), run.seed)
  run.witness('translator-validation', 'translation', ok, 'worst %.2g' % worst)
  uf_fail = {}
  lin_fail = set()
  for kind, cfg in cfgs:
    cexs = run_one(run, kind, cfg, timeout)
    sig = (kind, json.dumps({k: v for k, v in cfg.items() if k not in ('fam', 'maskbits')}, sort_keys=True))
    if cexs and cfg['fam'] == 'uf':
      uf_fail[sig] = cfg
    if cexs and cfg['fam'] == 'lin':
      lin_fail.add(sig)
  for sig, cfg in uf_fail.items():
    if sig not in lin_fail:
      run.fail('counterexample only in the uninterpreted-loss family (not replayable): %s %s' % sig)
  # mutation witness: plain mean over all rows (ignoring the mask) must be distinguishable
  silent = type(run)(run.pid, run.tier, run.seed)
  hm = jh.Harness(silent, 'mutwit', timeout)
  cm = dict(fam='lin', reg=False, N=2)
  w, b, X, Tg = sym_inputs(2)
  symm = (w, b, X, Tg, sj.symarr('M', (2,), 'b'), sj.rawkeyarr('k'))
  bad = hm.equiv(grad_code(cm), grad_ref(dict(cm, mask=False)), symm)
  run.witness('mutation-witness(unmasked mean distinguishable)', 'mutation', bool(bad))
