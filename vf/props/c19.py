"""C19: downloaded and decompressed cache files appear only when complete (Engine X: CrossHair, crash points symbolic)."""
import ast
import os
import sys

from .. import xh

LEVEL = 'model_checking'
HARNESS = 'c19_h.py'
LENGTH_NAMES = ['empty', '100 bytes (< block)', 'exactly one block', 'one block + 100', 'two blocks + 100']


def _mod(lcfg):
  os.environ['C19_LEN'] = str(lcfg)
  sys.path.insert(0, xh.HARNESS_DIR)
  for m in ('c19_h',):
    sys.modules.pop(m, None)
  import c19_h
  import fs_model
  return c19_h, fs_model


def run_disk(lcfg, func, a):
  h, fsm = _mod(lcfg)
  if func == 'cache1':
    return h.scenario(fsm.DiskFS, [a['c1']], a['cut'], -1)
  if func == 'cache_net':
    return h.scenario(fsm.DiskFS, [-1] + ([a['c2']] if a['c2'] >= 0 else []), 1, a['net_fail'])
  if func == 'cache2':
    return h.scenario(fsm.DiskFS, [a['c1'], a['c2']], 1, -1)
  if func == 'empty_body':
    return h.scenario_empty_body(fsm.DiskFS, [a['c1']] if a['c1'] >= 0 else [])
  if func == 'foreign':
    return h.scenario_foreign(fsm.DiskFS, a['keep'], a['repair'])
  if func == 'cifar1':
    return h.scenario_cifar(fsm.DiskFS, [a['c1']], a['cut'])
  return h.scenario_cifar(fsm.DiskFS, [a['c1'], a['c2']], 1)


def replay(data):
  a = ast.literal_eval(data['args'])
  v = run_disk(a['lcfg'], data['func'], a)
  return bool(v), (v[0] if v else 'cache stays complete on a real temporary directory')


def classify(msg):
  for k, tag in (('decompressed file', 'torn-decompressed-file'), ('downloaded file', 'torn-download'), ('built file', 'torn-built-sqlite'),
                 ('fetched again', 'cache-not-reused'), ('did not complete', 'cache-not-repaired'), ('incomplete file', 'incomplete-result')):
    if k in msg:
      return tag
  return 'other'


NAMES = {'cache1': ['c1', 'cut'], 'cache_net': ['net_fail', 'c2'], 'cache2': ['c1', 'c2'], 'cifar1': ['c1', 'cut'], 'cifar2': ['c1', 'c2'], 'empty_body': ['c1'], 'foreign': ['keep', 'repair']}


def check(run):
  timeout = 900 if run.tier == 'quick' else 2400
  lens = [0, 1, 3] if run.tier == 'quick' else [0, 1, 2, 3, 4]
  run.functions += ['datasets.downloads.maybe_download', 'maybe_lzma_decompress', 'validate_file', 'datasets.cifar100.load_split (cache branch)']
  run.trusted += ['CrossHair "Confirmed over all paths"', 'fs model with crash injection (buffered writers: data below 8 KiB stays in memory until flush/close '
                  'and is lost by a crash; rename atomic)', 'requests model: body in 256 KiB blocks, read may fail at a chosen block',
                  'lzma model: 2-byte header + payload, end of stream after the last byte of the complete file; lzma.open/decompress raise on a short stream, LZMADecompressor returns what it has and sets eof/unused_data', 'SQLite builder model: CREATE TABLE on open (fails on an existing file), one durable effect per client']
  run.assumptions += ['real HTTP semantics and sha256 itself are outside the claim (hash computed for real on concrete payloads)',
                      'crash points: before every file-system effect and every network read']
  run.bounds = {'payload': [LENGTH_NAMES[i] for i in lens], 'crashes': '1 or 2, then a clean call', 'network fault': 'dropped connection at block 0..3, HTTP 403 answer, or none',
                'partial write': '0..5 bytes kept', 'foreign truncated .lzma': 'cut at every stored offset, with and without a later repair'}
  jobs, meta = [], []
  for L in lens:
    for func in ('cache1', 'cache_net', 'cache2', 'foreign'):
      jobs.append((HARNESS, func, timeout, {'C19_LEN': str(L)}))
      meta.append((L, func))
  for func in ('cifar1', 'cifar2', 'empty_body'):
    jobs.append((HARNESS, func, timeout, {'C19_LEN': '1'}))
    meta.append((1, func))
  jobs.append((HARNESS, 'cache_reach', timeout, {'C19_LEN': '1'}))
  res = xh.run_many(jobs, workers=14)
  for (L, func), r in zip(meta, res[:-1]):
    name = '%s[payload=%s]' % (func, LENGTH_NAMES[L])
    if r['status'] == 'confirmed':
      run.ob(name, 'confirmed', r['secs'], detail={'crosshair': 'Confirmed over all paths', 'symbolic': 'crash indices, partial-write length, network-fault block'})
    elif r['status'] == 'refuted':
      run.ob(name, 'sat', r['secs'], detail=r['message'][:300])
      try:
        a = xh.parse_args(r['args'], names=NAMES[func])
      except Exception:   # pylint: disable=broad-except
        run.fail('%s: cannot parse %r' % (name, r['args']))
        continue
      a['lcfg'] = L
      if 'ModelGap' in (r['message'] or ''):
        run.ob(name + ':model-gap', 'error', detail='the code uses an API the environment model does not provide: ' + r['message'][:200])
        continue
      v = run_disk(L, func, a)
      what = v[0] if v else 'not reproduced on a real temporary directory'
      run.violation(classify(what) if v else 'unreproduced:' + name, '%s with %s: %s' % (name, {k: a[k] for k in a if k != 'lcfg'}, what),
                    {'func': func, 'args': repr(a)}, bool(v))
    else:
      run.ob(name, 'unknown', r['secs'], detail=r['message'][:300])
  run.witness('c19:reach', 'reach', res[-1]['status'] == 'refuted', res[-1]['message'][:200])
