"""C02 thread-scoping clause: CrossHair over the real backend-selection code with a threading.local model;
counterexamples are replayed with REAL threads."""
import ast
import threading

from .. import xh

HARNESS = 'c02_threads_h.py'
ARGS = ['debug', 'jit', 'pmap', None, 'bogus']


def replay_real_threads(func, args):
  """Replays a schedule with real threads: each step of the schedule releases one thread for one step."""
  from fedjax.core import for_each_client as fec
  names = {'debug': 'ForEachClientDebugBackend', 'jit': 'ForEachClientJitBackend', 'pmap': 'ForEachClientPmapBackend', None: 'ForEachClientJitBackend'}
  a_arg, b_arg = ARGS[args['a_choice']], ARGS[args['b_choice']]
  a_inner = [None, 'debug', 'bogus'][args['a_inner_choice']]
  obs = []
  lock = threading.Lock()
  turn = {'who': None}
  cv = threading.Condition()
  done = [False, False]

  class Boom(Exception):
    pass

  def describe():
    return type(fec.get_for_each_client_backend()).__name__

  def step(t):   # wait for my turn
    with cv:
      turn['who'] = None
      cv.notify_all()
      cv.wait_for(lambda: turn['who'] == t)

  def body_a():
    step(0)
    if args.get('a_pre', 0) == 0:
      obs.append(('a-before', describe()))
    elif args.get('a_pre') == 2:
      fec.set_for_each_client_backend(None)
    step(0)
    try:
      with fec.for_each_client_backend(a_arg):
        step(0)
        obs.append(('a-inside', describe()))
        step(0)
        if a_inner is not None:
          try:
            with fec.for_each_client_backend(a_inner):
              step(0)
              obs.append(('a-nested', describe()))
          except ValueError:
            pass
          step(0)
          obs.append(('a-after-nested', describe()))
        if args['a_raises']:
          raise Boom()
        step(0)
    except (Boom, ValueError):
      pass
    step(0)
    obs.append(('a-after', describe()))
    with cv:
      done[0] = True
      turn['who'] = None
      cv.notify_all()

  def body_b():
    step(1)
    obs.append(('b-before', describe()))
    step(1)
    if args['b_set']:
      fec.set_for_each_client_backend(b_arg)
      step(1)
      obs.append(('b-inside', describe()))
    else:
      with fec.for_each_client_backend(b_arg):
        step(1)
        obs.append(('b-inside', describe()))
        step(1)
      obs.append(('b-after', describe()))
    with cv:
      done[1] = True
      turn['who'] = None
      cv.notify_all()
  ths = [threading.Thread(target=body_a, daemon=True), threading.Thread(target=body_b, daemon=True)]
  for t in ths:
    t.start()
  for pick in list(args['schedule']) + [False] * 12 + [True] * 12:
    t = 1 if pick else 0
    if done[t]:
      t = 1 - t
    if done[t]:
      break
    with cv:
      cv.wait_for(lambda: turn['who'] is None, timeout=5)
      turn['who'] = t
      cv.notify_all()
      cv.wait_for(lambda: turn['who'] is None or done[t], timeout=5)
  d = names[None]
  exp = {'a-before': d, 'a-after': d, 'b-before': d, 'b-after': d, 'b-inside': names[b_arg]}
  if a_arg != 'bogus':
    exp['a-inside'] = names[a_arg]
    exp['a-after-nested'] = names[a_arg]
    if a_inner not in (None, 'bogus'):
      exp['a-nested'] = names[a_inner]
  bad = [(t, v, exp[t]) for t, v in obs if t in exp and exp[t] != v]
  return bool(bad), ('observed %s' % bad) if bad else 'real threads observe their own backends'


def replay(data):
  args = ast.literal_eval(data['args'])
  return replay_real_threads(data['func'], args)


def configs(tier):
  out = []
  a_choices = [0, 3, 4] if tier == 'quick' else [0, 1, 2, 3, 4]       # debug / None / invalid (+ jit, pmap)
  b_choices = [2] if tier == 'quick' else [0, 1, 2]
  for a in a_choices:
    for inner in (0, 1, 2):
      for b in b_choices:
        for bset in (0, 1):
          for raises in (0, 1):
            if tier == 'quick' and (inner, bset, raises) not in ((0, 0, 1), (1, 1, 0), (2, 0, 1), (1, 0, 1)):
              continue
            out.append((a, inner, b, bset, raises, 0))
  # the context as the thread's first backend operation / right after set_for_each_client_backend(None)
  for pre in (1, 2):
    for a in ([0] if tier == 'quick' else [0, 2]):
      for (inner, raises) in ((0, 0), (0, 1), (1, 1)):
        out.append((a, inner, 2, 0, raises, pre))
  return out


def check(run):
  timeout = 150 if run.tier == 'quick' else 400
  cfgs = configs(run.tier)
  jobs = []
  for c in cfgs:
    env = {'C02_CFG': ','.join(map(str, c))}
    jobs.append((HARNESS, 'threads_scoped', timeout, env))
  jobs.append((HARNESS, 'threads_reach', timeout, {'C02_CFG': '0,1,2,0,1,0'}))
  res = xh.run_many(jobs, workers=14)
  for c, r in zip(cfgs, res[:-1]):
    name = 'threads[a=%s,nested=%s,b=%s,b_uses_set=%d,a_raises=%d,a_first=%s]' % (ARGS[c[0]], [None, 'debug', 'bogus'][c[1]], ARGS[c[2]], c[3], c[4], ['lookup', 'context', 'set(None)'][c[5]])
    if r['status'] == 'confirmed':
      run.ob(name, 'confirmed', r['secs'], detail={'crosshair': 'Confirmed over all paths', 'symbolic': 'schedule: List[bool], len <= 7'})
    elif r['status'] == 'refuted':
      run.ob(name, 'sat', r['secs'], detail=r['message'][:300])
      try:
        args = xh.parse_args(r['args'], names=['schedule'])
      except Exception as ex:   # pylint: disable=broad-except
        run.fail('%s: cannot parse %r' % (name, r['args']))
        continue
      args.update(a_choice=c[0], a_inner_choice=c[1], b_choice=c[2], b_set=bool(c[3]), a_raises=bool(c[4]), a_pre=c[5])
      ok, msg = replay_real_threads('threads_scoped', args)
      run.violation('threads:backend-choice-leaks' if True else name, '%s with schedule %s: %s' % (name, args['schedule'], msg),
                    {'kind': 'threads', 'func': 'threads_scoped', 'args': repr(args)}, ok)
    else:
      run.ob(name, 'unknown', r['secs'], detail=r['message'][:300])
  run.witness('c02_threads:reach', 'reach', res[-1]['status'] == 'refuted', res[-1]['message'][:200])
  run.trusted.append('CrossHair path exhaustiveness ("Confirmed over all paths"); threading.local modelled as storage keyed by the current thread')
  run.bounds['thread schedules'] = 'all interleavings of 2 scripted threads with <= 7 symbolic scheduling decisions; %d discrete configurations' % len(cfgs)
