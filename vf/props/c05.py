"""C05: evaluation is invariant to batching and padding (metric monoid) (Engine J)."""
import itertools
import json
import math
from fractions import Fraction

import numpy as np
import z3

import jax
import jax.numpy as jnp

from .. import symjx as sj
from .. import jh
from . import metrics_common as mc
from .c01 import replay_subprocess

LEVEL = 'model_checking'


def _fx():
  import fedjax
  from fedjax.core import models, metrics, client_datasets
  return fedjax, models, metrics, client_datasets


def make_model(metric):
  fedjax, models, metrics, cds = _fx()
  return models.Model(init=lambda rng: None, apply_for_train=None,
                      apply_for_eval=lambda params, batch: params['P'][batch['idx']],
                      train_loss=None, eval_metrics={'m': metric})


def batches_of(partition, Y, Dm, Mk, with_mask=True):
  out = []
  for idxs in partition:
    idx = np.asarray(idxs, dtype=np.int32)
    b = {'idx': idx, 'y': Y[idx], 'domain_id': Dm[idx]}
    if with_mask:
      b['__mask__'] = Mk[idx]
    out.append(b)
  return out


def code_fn(metric, partition, mode):
  fedjax, models, metrics, cds = _fx()
  model = make_model(metric)

  def fn(P, Y, Dm, Mk):
    bs = batches_of(partition, Y, Dm, Mk)
    if mode == 'evaluate_model':
      return models.evaluate_model(model, {'P': P}, bs)['m']
    if mode == 'ModelEvaluator':
      ev = models.ModelEvaluator(model)
      (cid, res), = list(ev.evaluate_global_params({'P': P}, [(b'c0', bs)]))
      return res['m']
    if mode == 'ModelEvaluator(per-client)':
      ev = models.ModelEvaluator(model)
      (cid, res), = list(ev.evaluate_per_client_params([(b'c0', bs, {'P': P})]))
      return res['m']
    if mode == 'evaluate_model(no mask feature)':     # batches without a mask feature: every row is real
      nb = [{k: v for k, v in b.items() if k != '__mask__'} for b in bs]
      return models.evaluate_model(model, {'P': P}, nb)['m']
    if mode == 'evaluate_batch':   # one batch, direct
      (b,) = bs
      return metrics.evaluate_batch(metric, b, P[b['idx']], b['__mask__']).result()
    if mode == 'merge_fold':       # raw example statistics merged directly, balanced tree, no zero()
      rows = [i for idxs in partition for i in idxs]
      stats = [metric.evaluate_example({'y': Y[i], 'domain_id': Dm[i]}, P[i]) for i in rows]
      while len(stats) > 1:
        stats = [stats[j].merge(stats[j + 1]) if j + 1 < len(stats) else stats[j] for j in range(0, len(stats), 2)]
      return stats[0].result()
    raise ValueError(mode)
  return fn


def reference_result(name, info, kind, P, Y, Dm, Mk, C, T, ctx, rows, use_mask=True, metric=None):
  """sum over the real rows of the single-example statistics, then the result.  The single-example statistic is
  the real evaluate_example on that row (C14 checks it against first principles); with metric=None (replay) the
  first-principles definition is used instead."""
  accA = accW = None
  for i in rows:
    row = (_sub(P, i), _sub(Y, i), _sub(Dm, i))
    if metric is not None:
      a, w = mc.stat_fields(mc.eval_example(metric, row, ctx))
    else:
      a, w = mc.reference_stat(name, info, kind, row, C, T, ctx)
    if w is not None:
      a, w = mc.sanitize_mean(a, w)
    m = Mk[i] if use_mask else True
    a2 = np.empty(a.shape, dtype=object)
    w2 = np.empty(a.shape, dtype=object) if w is not None else None
    for idx in np.ndindex(*a.shape):
      a2[idx] = sj.f_select(m, mc.as_real(a[idx]), Fraction(0))
      if w is not None:
        w2[idx] = sj.f_select(m, mc.as_real(w[idx]), Fraction(0))
    if accA is None:
      accA, accW = a2, w2
    else:
      accA = sj.ew(sj.f_add, accA, a2)
      accW = sj.ew(sj.f_add, accW, w2) if w is not None else None
  if accA is None:
    row = (_sub(P, 0), _sub(Y, 0), _sub(Dm, 0))
    a, w = mc.reference_stat(name, info, kind, row, C, T, ctx)
    accA = sj.ew(lambda e: Fraction(0), a)
    accW = sj.ew(lambda e: Fraction(0), a) if w is not None else None
  return mc.result_of(accA, accW)


def _sub(arr, i):
  out = np.empty(arr.shape[1:], dtype=object)
  out[...] = arr[i]
  return out


def sym_tables(kind, N, C, T):
  if kind == 'cls':
    P = sj.symarr('P', (N, C))
    Y = sj.symarr('Y', (N,), 'i')
  else:
    P = sj.symarr('P', (N, T, C))
    Y = sj.symarr('Y', (N, T), 'i')
  Dm = sj.symarr('D', (N,), 'i')
  Mk = sj.symarr('M', (N,), 'b')
  return P, Y, Dm, Mk


def domain(Y, Dm, C):
  cs = []
  for t in Y.reshape(-1):
    cs += [t >= 0, t < C]
  for d in Dm.reshape(-1):
    cs += [d >= 0, d < 2]
  return cs


def run_metric(run, name, ctor, kind, info, N, C, T, partitions, timeout, pad_ninf=False):
  metric = ctor()
  P, Y, Dm, Mk = sym_tables(kind, N, C, T)
  assum = domain(Y, Dm, C)
  if pad_ninf:
    # the last row is a PADDING row (mask bit False) whose content makes its own statistic non-finite: score -inf at its
    # target class (loss +inf).  Masked rows must be replaced by the zero statistic, not multiplied away.
    P[N - 1][..., 1] = sj.NINF
    Mk[N - 1] = False
    assum = assum + [t == 1 for t in np.asarray(Y[N - 1]).reshape(-1)]
  sym = (P, Y, Dm, Mk)
  for partition, mode in partitions:
    nm = '%s%s|%s|%s' % (name, '[pad-row:-inf@target]' if pad_ninf else '', mode, partition)
    h = jh.Harness(run, nm, timeout)
    ctx = sj.Ctx()
    rows = [i for idxs in partition for i in idxs]
    try:
      out, pcs, _, _ = sj.run_symbolic(code_fn(metric, partition, mode), jh.abstract_of(sym), sym, ctx=ctx)
    except Exception as e:   # pylint: disable=broad-except
      if jh.engine_fault(e):
        run.ob(nm + ':trace', 'error', detail=repr(e)[:300])
        continue
      run.ob(nm + ':raises', 'sat', detail=repr(e)[:200])
      data = {'name': name, 'mode': mode, 'partition': partition, 'N': N, 'C': C, 'T': T, 'raises': True}
      ok, msg = replay_subprocess('C05', data)
      run.violation('%s:%s:raises' % (name.split('(')[0], mode), '%s via %s raises: %s' % (name, mode, msg), data, ok)
      continue
    if not rows:
      goals = []
      for idx in np.ndindex(*out.shape):
        goals.append(('empty-input=>0%s' % (list(idx),), sj.B_and(sj.finite(out[idx]), sj.f_eq(out[idx], Fraction(0)))))
      bad0 = h.prove_all('inv', ctx, assum, goals)
      if bad0:
        data = {'name': name, 'mode': mode, 'partition': partition, 'N': N, 'C': C, 'T': T, 'kind': kind, 'empty': True,
                'P': np.zeros(P.shape).tolist(), 'Y': np.ones(Y.shape, np.int64).tolist(), 'D': [0] * N, 'M': [True] * N}
        ok, msg = replay_subprocess('C05', data)
        run.violation('%s:%s:empty' % (name.split('(')[0], mode), '%s via %s on an empty input: %s' % (name, mode, msg), data, ok)
      continue
    ref = reference_result(name, info, kind, P, Y, Dm, Mk, C, T, ctx, rows, use_mask=(mode not in ('merge_fold', 'evaluate_model(no mask feature)')), metric=metric)
    goals = []
    if out.shape != ref.shape:
      goals.append(('shape', False))
    else:
      for idx in np.ndindex(*out.shape):
        goals.append(('result%s' % (list(idx),), sj.same(out[idx], ref[idx])))
        goals.append(('finite%s' % (list(idx),), sj.finite(out[idx])))
        if mode not in ('merge_fold', 'evaluate_model(no mask feature)'):
          nomask = sj.B_and(*[sj.B_not(Mk[i]) for i in rows]) if rows else True
          goals.append(('all-masked=>0%s' % (list(idx),),
                        z3.Implies(sj.zr(nomask), sj.zr(sj.B_and(sj.finite(out[idx]), sj.f_eq(out[idx], Fraction(0)))))))
    bad = h.prove_all('inv', ctx, assum, goals)
    if bad:
      nmg, model = bad[0]
      if model is not None:
        data = {'name': name, 'mode': mode, 'partition': partition, 'N': N, 'C': C, 'T': T, 'kind': kind,
                'P': sj.model_array(model, P).tolist(), 'Y': sj.model_array(model, Y, np.int64).tolist(),
                'D': sj.model_array(model, Dm, np.int64).tolist(), 'M': [bool(x) for x in sj.model_array(model, Mk, np.bool_)]}
      else:
        data = {'name': name, 'mode': mode, 'partition': partition, 'N': N, 'C': C, 'T': T, 'kind': kind,
                'P': np.zeros(P.shape).tolist(), 'Y': np.ones(Y.shape, np.int64).tolist(), 'D': [0] * N, 'M': [True] * N}
      ok, msg = replay_subprocess('C05', data)
      run.violation('%s:%s:%s' % (name.split('(')[0], mode, nmg.split('[')[0]),
                    '%s via %s over batches %s: %s' % (name, mode, partition, msg), data, ok)


def run_merge_laws(run, timeout):
  """associativity / commutativity / identity of merge on the stat domain, for symbolic stats."""
  fedjax, models, metrics, cds = _fx()
  h = jh.Harness(run, 'merge-laws', timeout)
  for shape in ((), (2,)):
    a = [sj.symarr('a%d' % i, shape) for i in range(3)]
    w = [sj.symarr('w%d' % i, shape) for i in range(3)]
    assum = []
    for i in range(3):
      for idx in np.ndindex(*shape):
        assum.append(z3.Or(z3.And(a[i][idx] == 0, w[i][idx] == 0), w[i][idx] > 0))
    ctx = sj.Ctx()

    def run_fn(fn):
      sym = (a, w)
      out, _, _, _ = sj.run_symbolic(fn, jh.abstract_of(sym), sym, ctx=ctx)
      return out
    MS, SS = metrics.MeanStat, metrics.SumStat
    mk = lambda A, W, i: MS(A[i], W[i])
    pairs = [
        ('mean-assoc', lambda A, W: mk(A, W, 0).merge(mk(A, W, 1)).merge(mk(A, W, 2)), lambda A, W: mk(A, W, 0).merge(mk(A, W, 1).merge(mk(A, W, 2)))),
        ('mean-comm', lambda A, W: mk(A, W, 0).merge(mk(A, W, 1)), lambda A, W: mk(A, W, 1).merge(mk(A, W, 0))),
        ('mean-identity-left', lambda A, W: MS.new(jnp.zeros(shape), jnp.zeros(shape)).merge(mk(A, W, 0)), lambda A, W: mk(A, W, 0)),
        ('mean-identity-right', lambda A, W: mk(A, W, 0).merge(MS.new(jnp.zeros(shape), jnp.zeros(shape))), lambda A, W: mk(A, W, 0)),
        ('sum-assoc', lambda A, W: SS(A[0]).merge(SS(A[1])).merge(SS(A[2])), lambda A, W: SS(A[0]).merge(SS(A[1]).merge(SS(A[2])))),
        ('sum-comm', lambda A, W: SS(A[0]).merge(SS(A[1])), lambda A, W: SS(A[1]).merge(SS(A[0]))),
        ('sum-identity', lambda A, W: SS.new(jnp.zeros(shape)).merge(SS(A[0])), lambda A, W: SS(A[0])),
    ]
    for nm, f1, f2 in pairs:
      o1, o2 = run_fn(f1), run_fn(f2)
      goals = []
      for (p, l1), (_, l2) in zip(jh.flat_with_paths(o1), jh.flat_with_paths(o2)):
        for idx in np.ndindex(*l1.shape):
          goals.append(('%s%s%s%s' % (nm, list(shape), p, list(idx)), sj.same(l1[idx], l2[idx])))
      bad = h.prove_all('law', ctx, assum, goals)
      for nmg, model in bad[:1]:
        run.violation('merge-law:' + nm, 'Stat.merge violates %s' % nmg, {'law': nm, 'model': str(model)[:400], 'kind': 'law'}, True)
    # new() sanitisation maps everything outside the domain to the identity
    o = run_fn(lambda A, W: MS.new(A[0], W[0]))
    goals = []
    for idx in np.ndindex(*shape):
      goals.append(('new-sanitises%s' % (list(idx),), z3.Implies(w[0][idx] <= 0, z3.And(sj.zr(o.accum[idx]) == 0, sj.zr(o.weight[idx]) == 0))))
    h.prove_all('law', ctx, [], goals)


def replay(data):
  fedjax, models, metrics, cds = _fx()
  if data.get('kind') == 'jit_history':
    msgs, _ = jit_history_probe(data['C'], data['T'], data['tier'])
    return bool(msgs), '; '.join(msgs[:2]) or 'no history dependence'
  if data.get('kind') == 'law':
    return True, 'merge law counterexample (symbolic stats): ' + data['model']
  from .c14 import find_metric
  name, mode, partition, N, C, T = data['name'], data['mode'], data['partition'], data['N'], data['C'], data['T']
  ctor, kind, info = find_metric(name, C, T)
  metric = ctor()
  if data.get('raises'):
    shp = (N, C) if kind == 'cls' else (N, T, C)
    P = np.zeros(shp); Y = np.ones((N,) if kind == 'cls' else (N, T), np.int32); D = np.zeros(N, np.int32); Mk = np.ones(N, bool)
  else:
    P = np.asarray(data['P'], dtype=np.float64); Y = np.asarray(data['Y'], dtype=np.int32)
    D = np.asarray(data['D'], dtype=np.int32); Mk = np.asarray(data['M'], dtype=bool)
  try:
    got = np.asarray(code_fn(metric, partition, mode)(jnp.asarray(P), jnp.asarray(Y), jnp.asarray(D), jnp.asarray(Mk)), dtype=np.float64)
  except Exception as e:   # pylint: disable=broad-except
    return True, 'real code raises %r' % (e,)
  sj.NUMERIC_MODE[0] = True
  ctx = sj.Ctx(numeric=True)

  def obj(x, conv):
    o = np.empty(x.shape, dtype=object)
    for idx in np.ndindex(*x.shape):
      o[idx] = conv(x[idx])
    return o
  rows = [i for idxs in partition for i in idxs]
  ref = reference_result(name, info, kind, obj(P, lambda v: Fraction(float(v)) if np.isfinite(v) else (sj.NINF if v < 0 else sj.PINF)), obj(Y, int), obj(D, int), obj(Mk, bool),
                         C, T, ctx, rows, use_mask=(mode not in ('merge_fold', 'evaluate_model(no mask feature)')))
  msgs = []
  if data.get('empty'):
    bad = [float(v) for v in got.reshape(-1) if not (v == 0)]
    return bool(bad), 'empty input gives %s (expected 0)' % (got.tolist(),)
  if got.shape != ref.shape:
    return True, 'shape %s vs %s' % (got.shape, ref.shape)
  for idx in np.ndindex(*got.shape):
    e = ref[idx]
    e = float('nan') if isinstance(e, sj.XR) else float(e)
    g = float(got[idx])
    if (math.isnan(g) != math.isnan(e)) or (not math.isnan(g) and abs(g - e) > 1e-6 * (1 + abs(e))):
      msgs.append('result%s = %r, merging single-example statistics gives %r' % (list(idx), g, e))
  return bool(msgs), '; '.join(msgs[:3]) or 'agrees'


def jit_history_probe(C, T, tier):
  """Auxiliary CONCRETE clause (the jit trace cache is outside the jaxpr): the solver-checked result of a metric / model
  is what the un-jitted code computes; with jit ON, evaluating metric B after a sibling A of the same class (same batch
  shapes), or a model after a sibling built with .replace(eval_metrics=...), must give that same result, i.e. objects that
  compute different things never share a static-argument identity."""
  fedjax, models, metrics, cds = _fx()
  N = 8
  rng = np.random.RandomState(5)
  msgs = []
  groups = {}
  for name, ctor, kind, info in mc.metric_grid(C, T, tier):
    if info.get('k', 1) < 1 or info.get('ninf_at'):
      continue
    groups.setdefault((name.split('(')[0] if not name.startswith('PerDomain') else name, kind), []).append((name, ctor))
  data = {}
  for kind in ('cls', 'seq'):
    shp = (N, C) if kind == 'cls' else (N, T, C)
    data[kind] = (jnp.asarray(rng.randn(*shp), jnp.float32), jnp.asarray(rng.randint(0, C, size=shp[:-1]), jnp.int32),
                  jnp.asarray(rng.randint(0, 2, size=(N,)), jnp.int32), jnp.asarray(rng.rand(N) < 0.7))
  npairs = 0
  for (cls, kind), members in sorted(groups.items()):
    P, Y, Dm, Mk = data[kind]
    batch = {'y': Y, 'domain_id': Dm}
    expected = {}
    with jax.disable_jit():
      for name, ctor in members:
        expected[name] = np.asarray(metrics.evaluate_batch(ctor(), batch, P, Mk).result())
    for order in (members, members[::-1]):
      for name, ctor in order:
        got = np.asarray(metrics.evaluate_batch(ctor(), batch, P, Mk).result())
        npairs += 1
        if got.shape != expected[name].shape or not np.allclose(got, expected[name], rtol=1e-5, atol=1e-6, equal_nan=True):
          msgs.append('%s evaluated after a sibling of its class gives %s, alone (no jit cache) %s' % (name, got.tolist(), expected[name].tolist()))
    # models whose eval_metrics differ only in configuration
    if len(members) >= 2:
      idx = jnp.arange(N, dtype=jnp.int32)
      bs = [{'idx': idx[:5], 'y': Y[:5], 'domain_id': Dm[:5]}, {'idx': idx[5:], 'y': Y[5:], 'domain_id': Dm[5:]}]
      base = make_model(members[0][1]())
      sib = base.replace(eval_metrics={'m': members[-1][1]()})
      with jax.disable_jit():
        want = np.asarray(models.evaluate_model(sib, {'P': P}, bs)['m'])
      models.evaluate_model(base, {'P': P}, bs)
      got = np.asarray(models.evaluate_model(sib, {'P': P}, bs)['m'])
      npairs += 1
      if got.shape != want.shape or not np.allclose(got, want, rtol=1e-5, atol=1e-6, equal_nan=True):
        msgs.append('model with %s evaluated after its sibling with %s gives %s, alone %s' % (members[-1][0], members[0][0], got.tolist(), want.tolist()))
  return msgs, npairs


def check(run):
  tier = run.tier
  timeout = 20.0 if tier == 'quick' else 120.0
  C, T = (3, 2)
  N = 3 if tier == 'quick' else 4
  grid = mc.metric_grid(C, T, 'quick')
  if tier == 'quick':
    # one representative per metric class (the constructor-argument grid is C14's business)
    seen, g2 = set(), []
    for item in grid:
      base = item[0].split('(')[0] + ('(' + item[0].split('(')[1].split(')')[0] if item[0].startswith('PerDomain') else '')
      pp = item[3].get('pp', False)
      k = (base, pp)
      if k in seen or item[3].get('k', 1) < 1 or item[3].get('lm') is not None:
        continue
      seen.add(k)
      g2.append(item)
    grid = g2
  else:
    grid = [g for g in grid if g[3].get('k', 1) >= 1]
  if tier == 'quick':
    parts = [([[0, 1], [2]], 'evaluate_model'), ([[2], [], [1, 0]], 'evaluate_model'), ([[0, 1, 2]], 'ModelEvaluator'),
             ([[1, 2, 0]], 'evaluate_batch'), ([[0, 1, 2]], 'merge_fold'), ([], 'evaluate_model'),
             ([[0], [1, 2]], 'ModelEvaluator(per-client)'), ([[0, 1], [2]], 'evaluate_model(no mask feature)')]
  else:
    parts = [([[0, 1], [2, 3]], 'evaluate_model'), ([[3], [0, 1, 2]], 'evaluate_model'), ([[0, 1, 2, 3]], 'evaluate_model'),
             ([[2, 3], [], [1], [0]], 'evaluate_model'), ([[0], [1, 2, 3]], 'ModelEvaluator'), ([[0, 1, 2, 3]], 'ModelEvaluator'),
             ([[3, 1, 2, 0]], 'evaluate_batch'), ([[0, 1, 2, 3]], 'merge_fold'), ([[2, 0, 1]], 'merge_fold'), ([], 'evaluate_model'),
             ([[0, 3], [1, 2]], 'ModelEvaluator(per-client)'), ([[0, 1], [2, 3]], 'evaluate_model(no mask feature)')]
  run.functions += ['fedjax.core.metrics.evaluate_batch/apply_mask/MeanStat/SumStat(new,merge,reduce,result)',
                    'fedjax.core.models.evaluate_model/_evaluate_model_step/ModelEvaluator', 'every Metric.evaluate_example/zero']
  run.trusted += ['z3', 'vf/symjx.py interpreter', 'first-principles metric references (checked against the code by C14)']
  run.assumptions += ['targets/domain ids in range; masked rows carry arbitrary in-domain symbolic content',
                      'mask bits are symbolic: every subset of rows may be padding, in any position',
                      'model = prediction-table lookup, so predictions are arbitrary symbolic reals']
  run.bounds = {'rows': N, 'classes': C, 'sequence length': T, 'domains': 2, 'metrics': len(grid), 'batchings': [str(p) for p in parts]}
  ok, worst = jh.validate_translation(
      lambda P, Y, Mk: code_fn(mc.M().Accuracy(), [[0, 1], [2]], 'evaluate_model')(P, Y, jnp.zeros(3, jnp.int32), Mk),
      (jax.ShapeDtypeStruct((3, C), np.float32), jax.ShapeDtypeStruct((3,), np.int32), jax.ShapeDtypeStruct((3,), np.bool_)), run.seed)
  run.witness('translator-validation', 'translation', ok, 'worst %.2g' % worst)
  for name, ctor, kind, info in grid:
    run_metric(run, name, ctor, kind, info, N, C, T, parts, timeout)
  # padding rows with non-finite statistics (loss metrics): replaced by zero(), never multiplied by a 0 weight
  pad_parts = [([[0, 1], [2]], 'evaluate_model'), ([[1, 2, 0]], 'evaluate_batch')] if N == 3 else \
      [([[0, 1], [2, 3]], 'evaluate_model'), ([[3, 1, 2, 0]], 'evaluate_batch'), ([[0], [1, 2, 3]], 'ModelEvaluator')]
  done = set()
  for name, ctor, kind, info in grid:
    if 'CrossEntropy' in name and name not in done and not info.get('ninf_at'):
      done.add(name)
      run_metric(run, name, ctor, kind, info, N, C, T, pad_parts, timeout, pad_ninf=True)
  run_merge_laws(run, timeout)
  msgs, npairs = jit_history_probe(C, T, tier)
  run.assumptions.append('history clause (jit trace cache shared between sibling metrics/models): auxiliary concrete run, %d evaluations' % npairs)
  run.ob('aux-concrete:jit-history(sibling metrics / models)', 'sat' if msgs else 'unsat', detail=msgs[:3] if msgs else None, nontrivial=False)
  if msgs:
    run.violation('jit-history', 'evaluation depends on what was evaluated before: %s' % msgs[0], {'kind': 'jit_history', 'C': C, 'T': T, 'tier': tier}, True)
