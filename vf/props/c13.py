"""C13: client sampling is a pure function of (seed, round number) (Engine X)."""
import ast
import os
import sys

from .. import xh

LEVEL = 'model_checking'
HARNESS = 'c13_h.py'
ID_BYTES = {10: b'a', 20: b'a\x00', 30: b'ab', 40: b'b\x00\x00'}


def _mod():
  sys.path.insert(0, xh.HARNESS_DIR)
  import c13_h
  import adapters
  return c13_h, adapters


def _real_expected(fd_ids, seed, r, n, cohort):
  import numpy as np
  from fedjax.core import client_samplers
  st = client_samplers.get_pseudo_random_state(seed, r)
  return list(st.choice(np.array(fd_ids, dtype=object), size=cohort, replace=False))


def _key(k):
  import numpy as np
  return tuple(int(v) for v in np.asarray(k).reshape(-1))


def replay_fn(cfg, func, a):
  h, adapters = _mod()
  from fedjax.core import client_samplers
  st, A = adapters.load_real_stack(), adapters.RealNP
  n, cohort, seed = cfg
  try:
    if func == 'stream_sampler_tape':
      # real numpy draws its own shuffles: look for a seed whose stream has a round straddling two passes with a repeated client
      r = None
      for sd in range(40):
        r = _stream_real(h, client_samplers, st, A, 3, 2, a['start'], sd)
        if r:
          break
    elif func == 'stream_sampler':
      r = h.scenario_stream(client_samplers, st, A, a['n'], a['cohort'], a['start'], a['seed0'], ID_BYTES.get)
    else:
      order = [h.ROUNDS[a[k]] for k in ('i1', 'i2', 'i3') if k in a]
      r = h.scenario_get(client_samplers, st, A, n, cohort, seed, order, [], _key, _real_expected, lambda p: None, ID_BYTES.get,
                         seat_twice=bool(a.get('seat_twice', False)))
  except Exception as e:   # pylint: disable=broad-except
    r = 'real code raises %r' % (e,)
  return (r is not None), (r or 'real sampler is a function of (seed, round) on bytes ids with trailing zero bytes')


def _stream_real(h, cs, st, A, n, cohort, start, seed):
  import numpy as np
  fd = h.make_fd(st, A, n, ID_BYTES.get)

  def run(start_round, rounds):
    s = cs.UniformShuffledClientSampler(fd.shuffled_clients(buffer_size=2, seed=seed), cohort, start_round)
    return [[(c[0], tuple(int(v) for v in np.asarray(c[2]).reshape(-1))) for c in s.sample()] for _ in range(rounds)]
  full, rest = run(0, start + 2), run(start, 2)
  if rest != full[start:]:
    return 'seed %d: streaming sampler restarted at round %d gives %r, the original run gave %r' % (seed, start, [[c[0] for c in r] for r in rest], [[c[0] for c in r] for r in full[start:]])
  return None


def replay(data):
  a = ast.literal_eval(data['args'])
  return replay_fn(tuple(a.get('cfg', (3, 2, 0))), data['func'], a)


def check(run):
  timeout = 700 if run.tier == 'quick' else 2400
  run.functions += ['client_samplers.UniformGetClientSampler (sample / set_round_num / get_pseudo_random_state)', 'UniformShuffledClientSampler',
                    'InMemoryFederatedData.get_clients / shuffled_clients']
  run.trusted += ['CrossHair "Confirmed over all paths"', 'jax.random = free key algebra (PRNGKey(n), split(k, n)[i] are constructors)',
                  'numpy RandomState(s) = draws that are a function of s: the permutation behind choice() is symbolic per derived seed and remembered']
  run.assumptions += ['collision-freeness of threefry and of the Lehmer step is outside the claim (distinct rounds are assumed to give distinct derived seeds / keys)',
                      'numpy object-array handling of ids with trailing zero bytes is covered only by the replay on real bytes ids']
  g = [(3, 2, 0), (3, 3, 1), (2, 1, 0), (3, 1, 1)] if run.tier == 'quick' else [(n, c, s) for n in (1, 2, 3) for c in range(1, n + 1) for s in (0, 1)]
  g3 = [(4, 2, 0), (4, 4, 1), (3, 3, 0), (4, 3, 0)] if run.tier == 'quick' else [(n, c, s) for n in (3, 4) for c in range(1, n + 1) for s in (0, 1)]
  run.bounds = {'clients': '1..4', 'cohort': '1..clients', 'requested rounds': '2 (symbolic draws) or 3 (fixed draws) from {0,1,2,5} in any order with repeats',
                'streaming sampler': 'clients 2..4, cohort 1..2, restart at round 0..2, seeds 0 and 3'}
  # oracle accepts the real sampler on the repo's own test-like input
  for cfgp, funcp, ap in (((4, 2, 0), 'get_sampler3', {'i1': 2, 'i2': 0, 'i3': 2}), ((4, 4, 1), 'get_sampler3', {'i1': 0, 'i2': 1, 'i3': 0}),
                          ((3, 2, 0), 'stream_sampler', {'n': 3, 'cohort': 2, 'start': 1, 'seed0': False}),
                          ((3, 2, 0), 'stream_sampler', {'n': 4, 'cohort': 2, 'start': 2, 'seed0': True})):
    bad, msg = replay_fn(cfgp, funcp, ap)
    xh.concrete_probe(run, '%s%s%s' % (funcp, cfgp, sorted(ap.items())), bad, msg, {'func': funcp, 'args': repr(dict(ap, cfg=list(cfgp)))})
  jobs, meta = [], []
  for c in g:
    jobs.append((HARNESS, 'get_sampler', timeout, {'C13_CFG': ','.join(map(str, c))}))
    meta.append((c, 'get_sampler', ['i1', 'i2', 'p1', 'p2', 'seat_twice']))
  for c in g3:
    jobs.append((HARNESS, 'get_sampler3', timeout, {'C13_CFG': ','.join(map(str, c))}))
    meta.append((c, 'get_sampler3', ['i1', 'i2', 'i3']))
  jobs.append((HARNESS, 'stream_sampler', timeout, None))
  meta.append(((0, 0, 0), 'stream_sampler', ['n', 'cohort', 'start', 'seed0']))
  jobs.append((HARNESS, 'stream_sampler_tape', timeout, None))
  meta.append(((0, 0, 0), 'stream_sampler_tape', ['flips', 'start']))
  jobs.append((HARNESS, 'get_sampler_reach', timeout, {'C13_CFG': '3,2,0'}))
  res = xh.run_many(jobs, workers=14)
  for (c, func, names), r in zip(meta, res[:-1]):
    name = '%s[clients=%d,cohort=%d,seed=%d]' % ((func,) + c) if not func.startswith('stream_sampler') else func
    if r['status'] == 'confirmed':
      run.ob(name, 'confirmed', r['secs'], detail={'crosshair': 'Confirmed over all paths'})
    elif r['status'] == 'refuted':
      run.ob(name, 'sat', r['secs'], detail=r['message'][:300])
      try:
        a = xh.parse_args(r['args'], names=names)
      except Exception:   # pylint: disable=broad-except
        run.fail('%s: cannot parse %r' % (name, r['args']))
        continue
      ok, msg = replay_fn(c, func, a)
      a['cfg'] = list(c)
      key = 'stream-restart' if func.startswith('stream_sampler') else ('history-dependent-or-wrong-draw' if 'expected' in msg or 'differ' in msg else 'sampler')
      run.violation(key if ok else 'unreproduced:' + name, '%s with %s: %s' % (name, {k: v for k, v in a.items() if k != 'cfg'}, msg), {'func': func, 'args': repr(a)}, ok)
    else:
      run.ob(name, 'unknown', r['secs'], detail=r['message'][:300])
  run.witness('c13:reach', 'reach', res[-1]['status'] == 'refuted', res[-1]['message'][:200])
