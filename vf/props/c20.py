"""C20: packaged dataset preprocessors and models agree with each other (Engine X + Engine J, partial)."""
import ast
import os
import sys
from fractions import Fraction

import numpy as np
import z3

import jax
import jax.numpy as jnp

from .. import symjx as sj
from .. import jh
from .. import xh
from . import metrics_common as mc
from .c01 import replay_subprocess

LEVEL = 'model_checking'
HARNESS = 'c20_h.py'
NINF = float('-inf')


# =====================================================================================================
# label conventions: model metrics/loss vs the ids its packaged dataset produces (Engine J)
# =====================================================================================================
def conventions():
  from fedjax.datasets import shakespeare as dsh
  from fedjax.datasets import stackoverflow as dso
  from fedjax.models import shakespeare as msh
  from fedjax.models import stackoverflow as mso
  out = []
  C = dsh.VOCAB_SIZE
  out.append(dict(name='shakespeare', model=lambda: msh.create_lstm_model(embed_size=2, lstm_hidden_size=2, lstm_num_layers=1),
                  C=C, PAD=dsh.PAD, BOS=dsh.BOS, EOS=dsh.EOS, OOV=dsh.OOV, loss='mean'))
  V = 3    # words in the vocabulary; DefaultWordTokenizer: ids offset by 3, OOV bucket id = len(vocab) + 3, size len(vocab) + 4
  out.append(dict(name='stackoverflow', model=lambda: mso.create_lstm_model(vocab_size=V, embed_size=2, lstm_hidden_size=2, expected_length=2.0),
                  C=V + 4, PAD=dso.DefaultWordTokenizer.PAD, BOS=dso.DefaultWordTokenizer.BOS, EOS=dso.DefaultWordTokenizer.EOS, OOV=V + 3,
                  loss='sum/expected_length'))
  return out


def expected_metric_objects(cv):
  """The metric the statement requires, built from the real metric classes (checked against definitions by C14) with the
  DATASET's label ids."""
  m = mc.M()
  PAD, BOS, EOS, OOV, C = cv['PAD'], cv['BOS'], cv['EOS'], cv['OOV'], cv['C']
  lm = tuple(NINF if i in (PAD, BOS, EOS, OOV) else 0.0 for i in range(C))
  return {
      'accuracy_in_vocab': m.SequenceTokenAccuracy(masked_target_values=(PAD, EOS), logits_mask=lm),
      'accuracy_no_eos': m.SequenceTokenAccuracy(masked_target_values=(PAD, EOS)),
      'num_tokens': m.SequenceTokenCount(masked_target_values=(PAD,)),
      'sequence_length': m.SequenceLength(masked_target_values=(PAD,)),
      'sequence_loss': m.SequenceCrossEntropyLoss(masked_target_values=(PAD,)),
      'token_loss': m.SequenceTokenCrossEntropyLoss(masked_target_values=(PAD,)),
      'token_oov_rate': m.SequenceTokenOOVRate(oov_target_values=(OOV,), masked_target_values=(PAD,)),
      'truncation_rate': m.SequenceTruncationRate(eos_target_value=EOS, masked_target_values=(PAD,)),
  }


def expected_metrics(cv):
  """The same table as (first-principles reference name, info) pairs: used by the numeric replay."""
  PAD, BOS, EOS, OOV, C = cv['PAD'], cv['BOS'], cv['EOS'], cv['OOV'], cv['C']
  lm = tuple(NINF if i in (PAD, BOS, EOS, OOV) else 0.0 for i in range(C))
  exp = {
      'accuracy_in_vocab': ('SequenceTokenAccuracy', dict(mvs=(PAD, EOS), lm=lm, pp=False)),
      'accuracy_no_eos': ('SequenceTokenAccuracy', dict(mvs=(PAD, EOS), lm=None, pp=False)),
      'num_tokens': ('SequenceTokenCount', dict(mvs=(PAD,))),
      'sequence_length': ('SequenceLength', dict(mvs=(PAD,))),
      'sequence_loss': ('SequenceCrossEntropyLoss', dict(mvs=(PAD,))),
      'token_loss': ('SequenceTokenCrossEntropyLoss', dict(mvs=(PAD,), pp=False)),
      'token_oov_rate': ('SequenceTokenOOVRate', dict(oov=(OOV,), mvs=(PAD,), pp=False)),
      'truncation_rate': ('SequenceTruncationRate', dict(eos=EOS, mvs=(PAD,))),
  }
  return exp


def run_conventions(run, cv, T, timeout):
  model = cv['model']()
  C = cv['C']
  exp = expected_metrics(cv)
  for mname, metric in sorted(model.eval_metrics.items()):
    nm = '%s:%s' % (cv['name'], mname)
    h = jh.Harness(run, nm, timeout)
    if mname not in exp:
      run.ob(nm, 'error', detail='metric not covered by the reference table')
      continue
    rname, info = exp[mname]
    ctx = sj.Ctx()
    row = mc.sym_row('seq', C, T, '')
    assum = mc.row_domain(*row, C)
    try:
      stat = mc.eval_example(metric, row, ctx)
    except Exception as e:   # pylint: disable=broad-except
      if jh.engine_fault(e):
        raise
      run.ob(nm + ':raises', 'sat', detail=repr(e)[:200])
      data = {'kind': 'conv', 'conv': cv['name'], 'metric': mname, 'T': T, 'raises': True}
      ok, msg = replay_subprocess('C20', data)
      run.violation('%s:%s:raises' % (cv['name'], mname), '%s raises on dataset-shaped input: %s' % (nm, msg), data, ok)
      continue
    a, w = mc.stat_fields(stat)
    ra, rw = mc.stat_fields(mc.eval_example(expected_metric_objects(cv)[mname], row, ctx))
    goals = []
    for label, x, r in (('accum', a, ra), ('weight', w, rw)):
      if (x is None) != (r is None):
        goals.append((label + '-kind', False))
        continue
      if x is None:
        continue
      if x.shape != r.shape:
        goals.append((label + '-shape', False))
        continue
      for idx in np.ndindex(*x.shape):
        goals.append(('%s%s' % (label, list(idx)), sj.same(mc.as_real(x[idx]), mc.as_real(r[idx]))))
    bad = h.prove_all('conv', ctx, assum, goals)
    if bad:
      g, model_ = bad[0]
      pred, tgt, dom = row
      data = {'kind': 'conv', 'conv': cv['name'], 'metric': mname, 'T': T}
      if model_ is not None:
        data.update(pred=sj.model_array(model_, pred).tolist(), tgt=sj.model_array(model_, tgt, np.int64).tolist())
      ok, msg = replay_subprocess('C20', data)
      run.violation('%s:label-ids' % cv['name'], "%s's metric %s does not follow the ids its dataset produces (PAD=%d BOS=%d EOS=%d OOV=%d, %d labels): %s"
                    % (cv['name'], mname, cv['PAD'], cv['BOS'], cv['EOS'], cv['OOV'], C, msg), data, ok)
  # train loss: per-token cross entropy on the targets that are not PAD
  h = jh.Harness(run, cv['name'] + ':train_loss', timeout)
  ctx = sj.Ctx()
  pred = sj.symarr('lp', (1, T, C))
  tgt = sj.symarr('lt', (1, T), 'i')
  sym = (pred, tgt)
  out, _, _, _ = sj.run_symbolic(lambda p, t: model.train_loss({'y': t}, p), jh.abstract_of(sym), sym, ctx=ctx)
  # reference: the (C14-checked) token cross-entropy metric with the DATASET's PAD id: sum over non-PAD targets
  mref = mc.M().SequenceTokenCrossEntropyLoss(masked_target_values=(cv['PAD'],))
  prow = np.empty((T, C), dtype=object)
  prow[...] = pred[0]
  trow = np.empty((T,), dtype=object)
  trow[...] = tgt[0]
  drow = np.empty((), dtype=object)
  drow[()] = z3.IntVal(0)
  tot = mc.stat_fields(mc.eval_example(mref, (prow, trow, drow), ctx))[0][()]
  ref = sj.f_div(tot, Fraction(T)) if cv['loss'] == 'mean' else sj.f_mul(tot, Fraction(1, 2))
  assum = [z3.And(t >= 0, t < C) for t in tgt.reshape(-1)]
  bad = h.prove_all('loss', ctx, assum, [('train_loss', sj.same(out[0], ref))])
  if bad:
    data = {'kind': 'loss', 'conv': cv['name'], 'T': T}
    ok, msg = replay_subprocess('C20', data)
    run.violation('%s:train-loss' % cv['name'], '%s train_loss does not mask exactly the dataset PAD id: %s' % (cv['name'], msg), data, ok)
  # the model's output layer has one logit per dataset label
  params = model.init(jax.random.PRNGKey(0))
  widths = sorted({int(l.shape[-1]) for l in jax.tree_util.tree_leaves(params)})
  run.ob(cv['name'] + ':output-width==VOCAB_SIZE', 'unsat' if C in widths else 'sat', detail=None if C in widths else 'layer widths %s, dataset vocabulary size %d' % (widths, C),
         nontrivial=False)
  if C not in widths:
    run.violation('%s:vocab-size' % cv['name'], 'model has no layer of width %d = dataset vocabulary size (widths %s)' % (C, widths), {'kind': 'width', 'conv': cv['name']}, True)


def replay_conv(data):
  cv = [c for c in conventions() if c['name'] == data['conv']][0]
  model = cv['model']()
  C, T = cv['C'], data['T']
  if data['kind'] == 'width':
    params = model.init(jax.random.PRNGKey(0))
    widths = sorted({int(l.shape[-1]) for l in jax.tree_util.tree_leaves(params)})
    return C not in widths, 'widths %s' % (widths,)
  ctx = sj.Ctx(numeric=True)
  sj.NUMERIC_MODE[0] = True
  rng = np.random.RandomState(0)
  cases = []
  if 'pred' in data:
    cases.append((np.asarray(data['pred'], np.float64), np.asarray(data['tgt'], np.int32)))
  for t0 in (cv['PAD'], cv['BOS'], cv['EOS'], cv['OOV'], 3, C - 2):
    p = rng.randn(T, C)
    t = np.full((T,), t0, np.int32)
    t[-1] = 3
    cases.append((p, t))
    p2 = p.copy()
    p2[:, [cv['PAD'], cv['BOS'], cv['EOS'], cv['OOV']]] += 50.0      # special ids get the highest raw logits
    cases.append((p2, t))
  if data['kind'] == 'loss':
    for p, t in cases:
      got = float(np.asarray(model.train_loss({'y': jnp.asarray(t)[None]}, jnp.asarray(p)[None]))[0])
      lse = np.log(np.exp(p - p.max(-1, keepdims=True)).sum(-1)) + p.max(-1)
      xe = lse - p[np.arange(T), t]
      tot = float((xe * (t != cv['PAD'])).sum())
      expv = tot / T if cv['loss'] == 'mean' else tot / 2.0
      if abs(got - expv) > 1e-6 * (1 + abs(expv)):
        return True, 'train_loss %r on targets %s, expected %r' % (got, t.tolist(), expv)
    return False, 'train_loss agrees'
  mname = data['metric']
  metric = model.eval_metrics[mname]
  rname, info = expected_metrics(cv)[mname]
  for p, t in cases:
    try:
      stat = metric.evaluate_example({'y': jnp.asarray(t)}, jnp.asarray(p))
    except Exception as e:   # pylint: disable=broad-except
      return True, 'evaluate_example raises %r' % (e,)
    a, w = mc.stat_fields(stat)
    prow = np.empty(p.shape, dtype=object)
    for idx in np.ndindex(*p.shape):
      prow[idx] = Fraction(float(p[idx]))
    trow = np.empty(t.shape, dtype=object)
    for idx in np.ndindex(*t.shape):
      trow[idx] = int(t[idx])
    drow = np.empty((), dtype=object)
    drow[()] = 0
    ra, rw = mc.reference_stat(rname, info, 'seq', (prow, trow, drow), C, T, ctx)
    for label, x, r in (('accum', a, ra), ('weight', w, rw)):
      if x is None:
        continue
      for idx in np.ndindex(*np.shape(x)):
        e = mc.as_real(r[idx])
        e = float('nan') if isinstance(e, sj.XR) else float(e)
        g = float(np.asarray(x)[idx])
        if abs(g - e) > 1e-6 * (1 + abs(e)):
          return True, '%s %s = %r on targets %s (dataset ids PAD=%d BOS=%d EOS=%d OOV=%d), expected %r' % (mname, label, g, t.tolist(), cv['PAD'], cv['BOS'], cv['EOS'], cv['OOV'], e)
  return False, 'metrics agree with the dataset ids'


# =====================================================================================================
# CIFAR-100 evaluation preprocessing = per-image standardisation of the centre crop (Engine J)
# =====================================================================================================
_CIFAR = {}


class NpShim:
  """numpy facade for tracing numpy code with JAX: a call whose arguments contain a tracer goes to jax.numpy, every other
  call (shapes, constants) to the real numpy."""

  def __getattr__(self, name):
    real = getattr(np, name)
    if not callable(real) or isinstance(real, type):
      return real
    jfn = getattr(jnp, name, None)

    def call(*a, **k):
      traced = any(isinstance(x, jax.core.Tracer) for x in jax.tree_util.tree_leaves((a, k)))
      if traced and jfn is not None:
        return jfn(*a, **k)
      return real(*a, **k)
    return call


def cifar_mod():
  """The real cifar100.py loaded with numpy -> jax.numpy so that the preprocessing is traceable."""
  if 'm' not in _CIFAR:
    sys.path.insert(0, xh.HARNESS_DIR)
    import fedjax.datasets.cifar100  # noqa
    import xload
    _CIFAR['m'] = xload.load_real('fedjax/datasets/cifar100.py', 'cifar_jnp', post=lambda m: setattr(m, 'np', NpShim()))
  return _CIFAR['m']


def cifar_ref(ch, cw):
  def fn(img):
    oh, ow = (32 - ch) // 2, (32 - cw) // 2
    x = img[:, oh:oh + ch, ow:ow + cw, :]
    n = ch * cw * 3
    mean = jnp.sum(x, axis=(1, 2, 3), keepdims=True) / n
    var = jnp.sum((x - mean) * (x - mean), axis=(1, 2, 3), keepdims=True) / n
    adj = jnp.maximum(jnp.sqrt(var), 1.0 / jnp.sqrt(float(n)))        # tf.image.per_image_standardization
    return (x - mean) / adj
  return fn


def run_cifar(run, ch, cw, timeout):
  nm = 'cifar100-eval-crop[%dx%d]' % (ch, cw)
  h = jh.Harness(run, nm, timeout)
  m = cifar_mod()
  img = sj.symarr('px', (1, 32, 32, 3))
  try:
    cexs = h.equiv(lambda x: m.preprocess_image_tff(x, ch, cw, False), cifar_ref(ch, cw), (img,))
  except Exception as e:   # pylint: disable=broad-except
    if jh.engine_fault(e):
      raise
    run.ob(nm + ':raises', 'sat', detail=repr(e)[:200])
    cexs = [{'model': None}]
  if cexs:
    c = cexs[0]
    data = {'kind': 'cifar', 'ch': ch, 'cw': cw}
    if c.get('model') is not None:
      data['img'] = np.clip(np.round(sj.model_array(c['model'], img)), 0, 255).tolist()
    ok, msg = replay_subprocess('C20', data)
    run.violation('cifar100:standardisation' if 'offset' not in msg else 'cifar100:crop-window', '%s differs from per-image standardisation of the centre crop: %s' % (nm, msg), data, ok)


def replay_cifar(data):
  from fedjax.datasets import cifar100
  ch, cw = data['ch'], data['cw']
  rng = np.random.RandomState(0)
  imgs = [rng.randint(0, 256, size=(1, 32, 32, 3)).astype(np.uint8), (rng.randint(0, 3, size=(1, 32, 32, 3)) + 100).astype(np.uint8),
          np.full((1, 32, 32, 3), 77, np.uint8)]
  if 'img' in data:
    imgs.insert(0, np.asarray(data['img']).astype(np.uint8))
  for im in imgs:
    got = np.asarray(cifar100.preprocess_image_tff(im, ch, cw, False), np.float64)
    oh, ow = (32 - ch) // 2, (32 - cw) // 2
    x = im[:, oh:oh + ch, ow:ow + cw, :].astype(np.float64)
    n = ch * cw * 3
    expv = (x - x.mean()) / max(x.std(), 1.0 / np.sqrt(n))
    if got.shape != expv.shape:
      return True, 'shape %s vs %s' % (got.shape, expv.shape)
    d = float(np.max(np.abs(got - expv)))
    if d > 1e-4 * (1 + float(np.max(np.abs(expv)))):
      return True, 'max abs difference %.4g from tf.image.per_image_standardization of the centre crop (image std %.3f, 1/sqrt(N) %.3f)' % (d, x.std(), 1 / np.sqrt(n))
  return False, 'agrees with per-image standardisation'


def aux_cifar_train_crops(run):
  """Auxiliary concrete enumeration: with distort=True every start offset yields the standardised window of the requested shape."""
  from fedjax.datasets import cifar100
  rng = np.random.RandomState(1)
  im = rng.randint(0, 256, size=(2, 32, 32, 3)).astype(np.uint8)
  saved_u, saved_r = np.random.uniform, np.random.randint
  bad = None
  try:
    for ch, cw in ((24, 24), (31, 5), (1, 32)):
      lim = np.array([32 - ch + 1, 32 - cw + 1, 1])
      for oi in sorted({0, (32 - ch) // 2, 32 - ch}):
        for oj in sorted({0, 32 - cw}):
          np.random.uniform = lambda high=None, size=None, oi=oi, oj=oj: np.array([oi, oj, 0], dtype=np.float64)
          np.random.randint = lambda *a, **k: 0
          out = np.asarray(cifar100.preprocess_image_tff(im, ch, cw, True))
          x = im[:, oi:oi + ch, oj:oj + cw, :].astype(np.float64)
          n = ch * cw * 3
          ref = (x - x.mean(axis=(1, 2, 3), keepdims=True)) / np.maximum(x.std(axis=(1, 2, 3), keepdims=True), 1 / np.sqrt(n))
          if out.shape != (2, ch, cw, 3) or np.max(np.abs(out - ref)) > 1e-3:
            bad = 'crop %dx%d at offset (%d,%d): shape %s' % (ch, cw, oi, oj, out.shape)
  finally:
    np.random.uniform, np.random.randint = saved_u, saved_r
  run.ob('aux-concrete:cifar100-train-crops-are-sub-windows', 'sat' if bad else 'unsat', detail=bad, nontrivial=False)
  if bad:
    run.violation('cifar100:train-crop', 'distorted crop is not the standardised sub-window: %s' % bad, {'kind': 'aux_cifar'}, True)


# =====================================================================================================
# Engine X part
# =====================================================================================================
def _xh():
  sys.path.insert(0, xh.HARNESS_DIR)
  import c20_h
  import adapters
  return c20_h, adapters


def replay_x(func, a):
  h, adapters = _xh()
  from fedjax.datasets import shakespeare, emnist
  if func == 'table':
    ok = h.check_table(shakespeare, lambda t: [int(v) for v in t], a['b'])
    return (not ok), 'TABLE[%d] = %d, documented label %d, VOCAB_SIZE %d' % (a['b'], int(shakespeare.TABLE[a['b']]), h.expected_label(a['b']), shakespeare.VOCAB_SIZE)
  if func in ('tokenizer', 'tokenizer_reach'):
    c0, L = a['c0'], a['L']
    cs = [h.BYTES[c0], h.BYTES[(c0 + 1) % 6], h.BYTES[(c0 + 3) % 6], h.BYTES[(c0 + 4) % 6]]
    snippets, k = [], 0
    for n in a['lens']:
      snippets.append([cs[(k + j) % 4] for j in range(n)])
      k += n
    ok = h.check_tokenizer(shakespeare, adapters.RealNP, snippets, L)
    return (not ok), 'tokeniser output for snippets %r, sequence_length %d violates the stream oracle' % ([bytes(s) for s in snippets], L)
  if func == 'domain':
    n = a['n']
    cid = (h.HASHES[a['form']] if 'form' in a else (b'0123456789abcdef:' if a['long_form'] else b'')) + b'f%04d_00' % n
    got = emnist.domain_id(cid)
    return got != (0 if 2100 <= n <= 2599 else 1), 'domain_id(%r) = %d' % (cid, got)
  return False, 'no replay'


def cifar_concrete():
  """The real preprocess_image_tff (float32) against float64 per-image standardisation on full-size crops."""
  from fedjax.datasets import cifar100
  rng = np.random.RandomState(1)
  imgs = {'random': rng.randint(0, 256, size=(2, 32, 32, 3)), 'dark low contrast': rng.randint(0, 3, size=(2, 32, 32, 3)) + 100,
          'bright low contrast': rng.randint(0, 3, size=(2, 32, 32, 3)) + 253, 'bright, one step': (rng.rand(2, 32, 32, 3) < 0.02).astype(int) + 254,
          'constant': np.full((2, 32, 32, 3), 255), 'constant 0': np.zeros((2, 32, 32, 3), int)}
  for name, im in imgs.items():
    im = im.astype(np.uint8)
    for ch, cw in ((24, 24), (32, 32), (1, 32), (5, 3)):
      got = np.asarray(cifar100.preprocess_image_tff(im, ch, cw, False), np.float64)
      oh, ow = (32 - ch) // 2, (32 - cw) // 2
      x = im[:, oh:oh + ch, ow:ow + cw, :].astype(np.float64)
      n = ch * cw * 3
      mean = x.mean(axis=(1, 2, 3), keepdims=True)
      std = x.std(axis=(1, 2, 3), keepdims=True)
      expv = (x - mean) / np.maximum(std, 1.0 / np.sqrt(n))
      if got.shape != expv.shape:
        return True, '%s image, crop %dx%d: shape %s vs %s' % (name, ch, cw, got.shape, expv.shape)
      d = float(np.max(np.abs(got - expv)))
      if d > 1e-3 * (1 + float(np.max(np.abs(expv)))):
        return True, '%s image, crop %dx%d: max abs difference %.4g from per-image standardisation (std %.4f)' % (name, ch, cw, d, float(std.min()))
  return False, 'agrees'


def tokenizer_concrete():
  h, adapters = _xh()
  from fedjax.datasets import shakespeare
  for snippets, L in (([[2, 97], [3], [0, 1, 255]], 3), ([[3, 2, 3, 2]], 2), ([[], [1], []], 4), ([[97, 2, 98, 3, 99]], 5)):
    try:
      ok = h.check_tokenizer(shakespeare, adapters.RealNP, snippets, L)
    except Exception as e:   # pylint: disable=broad-except
      return True, 'tokeniser raises %r on snippets %r' % (e, [bytes(s) for s in snippets])
    if not ok:
      return True, 'tokeniser output for snippets %r, sequence_length %d is not the begin/characters/end label stream' % ([bytes(s) for s in snippets], L)
  return False, 'agrees'


def replay(data):
  k = data.get('kind')
  if k == 'cifar_concrete':
    return cifar_concrete()
  if k == 'tok_concrete':
    return tokenizer_concrete()
  if k in ('conv', 'loss', 'width'):
    return replay_conv(data)
  if k == 'cifar':
    return replay_cifar(data)
  if k == 'aux_cifar':
    return True, 'see message'
  return replay_x(data['func'], ast.literal_eval(data['args']))


def check(run):
  thorough = run.tier == 'thorough'
  timeout = 60.0 if not thorough else 300.0
  run.functions += ['datasets.shakespeare.preprocess_client / _build_look_up_table / TABLE', 'datasets.emnist.domain_id',
                    'datasets.cifar100.preprocess_image_tff', 'models.shakespeare.create_lstm_model (train_loss, eval_metrics)',
                    'models.stackoverflow.create_lstm_model (train_loss, eval_metrics)']
  run.trusted += ['z3', 'vf/symjx.py interpreter', 'CrossHair + np_lite for the tokeniser', 'cifar100.py loaded with numpy -> jax.numpy for tracing',
                  'int() of the digits of a well-formed EMNIST id modelled as the symbolic number (slice positions checked on literal ids)']
  run.assumptions += ['NOT CLAIMED: row-independence of the packaged CNN/LSTM models (10^5..10^6 parameters: out of reach for an SMT encoding)',
                      'NOT CLAIMED: the StackOverflow tokeniser (TensorFlow string ops); its id layout is taken from its documented constants',
                      'CIFAR crops checked symbolically for small crops (N = 3..18 values); training crops only by a concrete enumeration of offsets']
  run.bounds = {'sequence length': '1 (2)', 'classes': 'shakespeare 90, stackoverflow 7 (vocab 3)', 'cifar crops': '1x1, 2x1, 1x2, 2x2 (3x2)',
                'tokeniser': '<=3 snippets of <=2 bytes from 6 representative bytes, sequence length 2..4', 'EMNIST number': '0..9999; short form, plain hash, two hashes containing decoy f<digits> fields'}
  for cv in conventions():
    run_conventions(run, cv, 1 if not thorough else 2, timeout)
  for ch, cw in ([(1, 1), (2, 1), (1, 2), (2, 2)] if not thorough else [(1, 1), (2, 1), (1, 2), (2, 2), (3, 2), (3, 3)]):
    run_cifar(run, ch, cw, timeout)
  aux_cifar_train_crops(run)
  # literal EMNIST ids: the digits are read from the right positions
  from fedjax.datasets import emnist
  lit = [(b'f2100_07', 0), (b'f2599_01', 0), (b'f2099_00', 1), (b'f2600_00', 1), (b'0123456789abcdef:f2100_07', 0), (b'0123456789abcdef:f0007_42', 1),
         (b'2100210021002100:f3999_21', 1)]
  badlit = [(c, emnist.domain_id(c), e) for c, e in lit if emnist.domain_id(c) != e]
  xh.concrete_probe(run, 'emnist-literal-ids', bool(badlit), str(badlit), {'kind': 'x', 'func': 'domain', 'args': repr({'n': 2100, 'long_form': True})})
  # concrete layer (real code, real numpy): full-size CIFAR crops incl. bright low-contrast images (float32 cancellation), tokeniser
  # on control bytes that coincide with label ids
  bad, msg = cifar_concrete()
  xh.concrete_probe(run, 'cifar100-full-size-crops', bad, msg, {'kind': 'cifar_concrete'})
  bad, msg = tokenizer_concrete()
  xh.concrete_probe(run, 'shakespeare-control-bytes', bad, msg, {'kind': 'tok_concrete'})
  specs = [('table', 'prop'), ('tokenizer', 'prop'), ('domain', 'prop'), ('tokenizer_reach', 'reach')]
  xh.discharge(run, HARNESS, specs, 300 if not thorough else 900, replay_x)
