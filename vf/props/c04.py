"""C04: shuffled batching samples without replacement, exact count, seeded (Engine X)."""
import ast
import sys

from .. import xh

LEVEL = 'model_checking'
HARNESS = 'c04_h.py'


def _harness():
  sys.path.insert(0, xh.HARNESS_DIR)
  import c04_h   # noqa
  import adapters
  return c04_h, adapters


def replay_fn(func, args):
  h, adapters = _harness()
  cdm, A = adapters.load_real_cd(), adapters.RealNP
  try:
    if func == 'srb_big_batch':
      ok = h.check_srb(cdm, A, args['n'], args['batch_size'], 0, args['steps_c'], False, False, None)
    else:
      ok = h.check_srb(cdm, A, args['n'], args['batch_size'], args['epochs_c'], args['steps_c'], args['drop'], args['skip'], None)
    if ok and not args.get('skip'):
      msg = h.reshuffle_probe_real(cdm, A, args['n'], args['batch_size'], args.get('epochs_c', 0), args['steps_c'], args.get('drop', False))
      if msg:
        return True, msg
  except Exception as e:   # pylint: disable=broad-except
    return True, 'real code raises %r' % (e,)
  return (not ok), ('real numpy run violates the oracle (batch size / count / permutation windows / repeatability)' if not ok else 'real run satisfies the oracle')


def replay(data):
  return replay_fn(data['func'], ast.literal_eval(data['args']))


def check(run):
  timeout = 400 if run.tier == 'quick' else 2400
  env = None if run.tier == 'quick' else {'C04_BOUNDS': '5,4,3,6'}
  run.functions += ['client_datasets.ClientDataset.shuffle_repeat_batch', 'ShuffleRepeatBatchView.__init__/__iter__']
  run.trusted += ['CrossHair "Confirmed over all paths"', 'np_lite + oracle tape: shuffle(buf) overwrites buf with the next tape segment '
                  '(contract: numpy.shuffle returns some permutation of its argument; equal seeds give equal streams)']
  run.assumptions += ['statistical quality of numpy\'s shuffle is outside the claim', 'N >= 1 (the statement excludes empty datasets)',
                      'infinite streams are cut after 3 batches']
  run.bounds = {'thorough': 'N<=5, batch<=4, epochs<=3, steps<=6', 'N': '1..4', 'batch_size': '1..3 (4..7 with N<=3 for multi-epoch batches)', 'num_epochs': 'None,1,2', 'num_steps': 'None,0..4',
                'drop_remainder/skip_shuffle': 'both'}
  sys.path.insert(0, xh.HARNESS_DIR)
  import np_lite
  probs = np_lite.validate()
  run.witness('np_lite-vs-numpy', 'translation', not probs, '; '.join(probs))
  h, adapters = _harness()
  cdm, A = adapters.load_real_cd(), adapters.RealNP
  # concrete layer: the oracle on the real code and real numpy for literal inputs (a failure here is a real failing input)
  lits = [dict(n=5, batch_size=b, epochs_c=1, steps_c=-1, drop=d, skip=False) for b in (1, 2, 3, 5, 7) for d in (False, True)] + \
      [dict(n=5, batch_size=2, epochs_c=0, steps_c=4, drop=False, skip=True), dict(n=4, batch_size=2, epochs_c=3, steps_c=-1, drop=False, skip=False),
       dict(n=6, batch_size=4, epochs_c=0, steps_c=6, drop=False, skip=False), dict(n=3, batch_size=3, epochs_c=2, steps_c=0, drop=False, skip=False)]
  for a in lits:
    bad, msg = replay_fn('srb', a)
    xh.concrete_probe(run, 'srb%s' % (sorted(a.items()),), bad, msg, {'func': 'srb', 'args': repr(a)})
  xh.discharge(run, HARNESS, [('srb', 'prop'), ('srb_big_batch', 'prop'), ('srb_reach', 'reach')], timeout, replay_fn, env)
