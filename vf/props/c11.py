"""C11: stochastic quantizers are unbiased, bounded, finite and accounted (Engine J)."""
import itertools
import json
import math
from fractions import Fraction

import numpy as np
import z3

import jax
import jax.numpy as jnp

from .. import symjx as sj
from .. import jh
from .c01 import replay_subprocess

LEVEL = 'model_checking'


def C():
  from fedjax.aggregators import compression
  return compression


def new_ctx(L=None):
  ctx = sj.Ctx()
  ctx.abstract_minmax = True
  if L is not None:
    ctx.floor_range = (0, L - 1)
  return ctx


def ref_minmax(v, tag=''):
  m, M = z3.Real('refmin' + tag), z3.Real('refmax' + tag)
  vs = [sj.zr(x) for x in v]
  return m, M, [m <= x for x in vs] + [M >= x for x in vs] + [z3.Or(*[m == x for x in vs]), z3.Or(*[M == x for x in vs])]


def uniform_of(ctx, i):
  ks = [k for k in ctx.uniforms if k[1][1] == i]
  return ctx.uniforms[ks[0]] if ks else None


# ---- uniform / binary ------------------------------------------------------------------------------
def grid_goal(v_i, out_i, u, m, M, L):
  """out_i is a neighbouring grid level of v_i and obeys the threshold law  u*(hi-lo) <> v-lo."""
  ov = sj.zr(sj.xr(out_i).v)
  r = M - m
  cases = []
  for k in range(L - 1):
    gk, gk1 = m + k * r / (L - 1), m + (k + 1) * r / (L - 1)
    law = [z3.Implies(u * (gk1 - gk) > v_i - gk, ov == gk), z3.Implies(u * (gk1 - gk) < v_i - gk, ov == gk1)] if u is not None else []
    cases.append(z3.And(gk <= v_i, v_i <= gk1, z3.Or(ov == gk, ov == gk1), *law))
  on_grid = z3.Or(*[v_i == m + k * r / (L - 1) for k in range(L)])
  return [('finite', sj.zr(sj.finite(out_i))),
          ('neighbouring-level+threshold-law', z3.If(r == 0, ov == v_i, z3.Or(*cases))),
          ('on-grid-fixed-point', z3.Implies(on_grid, ov == v_i)),
          ('in-range', z3.And(ov >= m, ov <= M))]


def run_uniform(run, n, L, timeout, binary=False):
  nm = '%s[n=%d,L=%d]' % ('binary' if binary else 'uniform', n, L)
  h = jh.Harness(run, nm, timeout)
  ctx = new_ctx(L)
  v = sj.symarr('v', (n,))
  sym = (v, sj.rawkeyarr('k'))
  fn = (lambda x, k: C().binary_stochastic_quantize(x, k)) if binary else (lambda x, k: C().uniform_stochastic_quantize(x, L, k))
  viol = []
  try:
    out, _, _, _ = sj.run_symbolic(fn, jh.abstract_of(sym), sym, ctx=ctx)
    m, M, facts = ref_minmax(v)
    goals = []
    for i in range(n):
      u = uniform_of(ctx, i)
      if u is None:
        goals.append(('uses-randomness[%d]' % i, False))
        continue
      goals += [('%s[%d]' % (g, i), f) for g, f in grid_goal(v[i], out[i], u, m, M, L)]
    goals += [('floor-argument-in-range#%d' % j, ob) for j, ob in enumerate(ctx.side_obligations)]
    viol = h.prove_all('q', ctx, facts, goals)
    h.witness_sat('reach(off-grid coordinate)', ctx, facts + [M > m, v[0] > m, v[0] < M] if n > 2 else facts + ([M > m] if n > 1 else []))
  except Exception as e:   # pylint: disable=broad-except
    if jh.engine_fault(e):
      raise
    run.ob(nm + ':raises', 'sat', detail=repr(e)[:300])
    viol = [('raises', None)]
  if viol:
    g, model = viol[0]
    data = {'kind': 'binary' if binary else 'uniform', 'n': n, 'L': L}
    if model is not None:
      data['v'] = sj.model_array(model, v).tolist()
      data['u'] = [sj.model_value(model, uniform_of(ctx, i)) if uniform_of(ctx, i) is not None else 0.5 for i in range(n)]
    ok, msg = replay_subprocess('C11', data)
    run.violation('%s:%s' % (data['kind'], g.split('[')[0]), '%s violates %s: %s' % (nm, g, msg), data, ok)


# ---- TernGrad -----------------------------------------------------------------------------------------
def run_terngrad(run, n, timeout):
  nm = 'terngrad[n=%d]' % n
  h = jh.Harness(run, nm, timeout)
  ctx = new_ctx()
  v = sj.symarr('v', (n,))
  sym = (v, sj.rawkeyarr('k'))
  viol = []
  try:
    out, _, _, _ = sj.run_symbolic(lambda x, k: C().terngrad_quantize(x, k), jh.abstract_of(sym), sym, ctx=ctx)
    # reference: sigma = population std, clip at 2.5 sigma, s = largest clipped magnitude
    mean = sum(v[i] for i in range(n)) / n
    var = sum((v[i] - mean) * (v[i] - mean) for i in range(n)) / n
    sig = ctx.sqrt(var)          # sqrt variables are memoised by the canonical polynomial of their argument
    s = z3.Real('refs')
    vc = [z3.If(v[i] > 5 * sig / 2, 5 * sig / 2, z3.If(v[i] < -5 * sig / 2, -5 * sig / 2, v[i])) for i in range(n)]
    av = [z3.If(x >= 0, x, -x) for x in vc]
    facts = [s >= a for a in av] + [z3.Or(*[s == a for a in av])]
    goals = []
    for i in range(n):
      u = uniform_of(ctx, i)
      o = out[i]
      ov = sj.zr(sj.xr(o).v)
      sgn = z3.If(vc[i] > 0, z3.RealVal(1), z3.If(vc[i] < 0, z3.RealVal(-1), z3.RealVal(0)))
      goals.append(('finite[%d]' % i, sj.zr(sj.finite(o))))
      goals.append(('ternary-level[%d]' % i, z3.Or(ov == 0, ov == s * sgn)))
      if u is None:
        goals.append(('uses-randomness[%d]' % i, False))
      else:
        goals.append(('threshold-law[%d]' % i, z3.And(z3.Implies(u * s < av[i], ov == s * sgn), z3.Implies(u * s > av[i], ov == 0))))
    viol = h.prove_all('q', ctx, facts, goals)
    h.witness_sat('reach(clipping active)', ctx, facts + [z3.Or(*[z3.Or(v[i] > 5 * sig / 2, v[i] < -5 * sig / 2) for i in range(n)])])
  except Exception as e:   # pylint: disable=broad-except
    if jh.engine_fault(e):
      raise
    run.ob(nm + ':raises', 'sat', detail=repr(e)[:300])
    viol = [('raises', None)]
  if viol:
    g, model = viol[0]
    data = {'kind': 'terngrad', 'n': n}
    if model is not None:
      data['v'] = sj.model_array(model, v).tolist()
      data['u'] = [sj.model_value(model, uniform_of(ctx, i)) if uniform_of(ctx, i) is not None else 0.5 for i in range(n)]
    ok, msg = replay_subprocess('C11', data)
    run.violation('terngrad:%s' % g.split('[')[0], '%s violates %s: %s' % (nm, g, msg), data, ok)


# ---- DRIVE --------------------------------------------------------------------------------------------
def run_drive(run, n, timeout):
  nm = 'drive[n=%d]' % n
  h = jh.Harness(run, nm, timeout)
  ctx = new_ctx()
  v = sj.symarr('v', (n,))
  viol = []
  try:
    out, _, _, _ = sj.run_symbolic(lambda x: C().drive_pytree({'a': x})['a'], jh.abstract_of((v,)), (v,), ctx=ctx)
    l2 = sum(v[i] * v[i] for i in range(n))
    l1 = sum(z3.If(v[i] >= 0, v[i], -v[i]) for i in range(n))
    goals = []
    for i in range(n):
      o = out[i]
      ov = sj.zr(sj.xr(o).v)
      sgn = z3.If(v[i] > 0, z3.RealVal(1), z3.If(v[i] < 0, z3.RealVal(-1), z3.RealVal(0)))
      goals.append(('finite[%d]' % i, sj.zr(sj.finite(o))))
      goals.append(('scale*sign[%d]' % i, z3.Implies(l1 > 0, ov * l1 == l2 * sgn)))
    viol = h.prove_all('q', ctx, [], goals)
  except Exception as e:   # pylint: disable=broad-except
    if jh.engine_fault(e):
      raise
    run.ob(nm + ':raises', 'sat', detail=repr(e)[:300])
    viol = [('raises', None)]
  if viol:
    g, model = viol[0]
    data = {'kind': 'drive', 'n': n, 'v': sj.model_array(model, v).tolist() if model is not None else [0.0] * n}
    ok, msg = replay_subprocess('C11', data)
    key = 'drive:zero-leaf-nan' if all(abs(x) == 0 for x in data['v']) else 'drive:' + g.split('[')[0]
    run.violation(key, '%s violates %s: %s' % (nm, g, msg), data, ok)


# ---- aggregators --------------------------------------------------------------------------------------
AGGS = ['uniform', 'rotated_uniform', 'drive', 'terngrad']
LEVELS = 3


def make_agg(name, key):
  c = C()
  return {'uniform': lambda: c.uniform_stochastic_quantizer(LEVELS, key), 'rotated_uniform': lambda: c.rotated_uniform_stochastic_quantizer(LEVELS, key),
          'drive': lambda: c.structured_drive_quantizer(key), 'terngrad': lambda: c.terngrad_quantizer(key)}[name]()


class Recorder:
  """Observation hooks: record the keys the aggregator hands to the quantiser / rotation functions (behaviour unchanged)."""

  def __init__(self):
    self.calls = []
    c = C()
    self.c = c
    self.saved = {'q': c.uniform_stochastic_quantize_pytree, 't': c.terngrad_quantize_pytree,
                  'r': c.walsh_hadamard.structured_rotation_pytree, 'i': c.walsh_hadamard.inverse_structured_rotation_pytree,
                  'd': c.drive_pytree}

  def __enter__(self):
    c, S, calls = self.c, self.saved, self.calls

    def q(params, num_levels, rng):
      calls.append(('quantize', rng))
      return S['q'](params, num_levels, rng)

    def t(params, rng):
      calls.append(('quantize', rng))
      return S['t'](params, rng)

    def r(params, rng):
      calls.append(('rotate', rng))
      return S['r'](params, rng)
    c.uniform_stochastic_quantize_pytree, c.terngrad_quantize_pytree = q, t
    c.walsh_hadamard.structured_rotation_pytree = r
    return self

  def __exit__(self, *a):
    c, S = self.c, self.saved
    c.uniform_stochastic_quantize_pytree, c.terngrad_quantize_pytree = S['q'], S['t']
    c.walsh_hadamard.structured_rotation_pytree = S['r']


def expected_bits(name, nparams, nleaves):
  per = {'uniform': math.log2(LEVELS), 'rotated_uniform': math.log2(LEVELS), 'drive': 1.0, 'terngrad': math.log2(3)}[name]
  return per * nparams + 32 * 2 * nleaves


def agg_fn(name, weights, shapes, rounds=2):
  """Runs `rounds` rounds; returns aggregated params, the reference (weighted mean of the per-client quantised trees rebuilt
  from the recorded keys with the real quantiser functions), all recorded keys and the bit counts."""
  c = C()

  def fn(trees, key):
    agg = make_agg(name, key)
    st = agg.init()
    res = []
    for rnd in range(rounds):
      with Recorder() as rec:
        cl = [(b'c%d' % i, trees[rnd][i], weights[i]) for i in range(len(weights))]
        out, new = agg.apply(iter(cl), st)
      S = rec.saved
      qkeys = [k for kind, k in rec.calls if kind == 'quantize']
      rkeys = [k for kind, k in rec.calls if kind == 'rotate']
      ref_q = []
      enough = (len(rkeys) if name in ('rotated_uniform', 'drive') else len(qkeys)) >= len(weights) and \
          (name == 'drive' or len(qkeys) >= len(weights)) and out is not None
      if not enough:     # fewer quantiser calls than clients (or no aggregate at all): the per-client goal below fails
        z = jax.tree_util.tree_map(jnp.zeros_like, trees[rnd][0])
        res.append({'out': z, 'ref': z, 'qkeys': [jnp.asarray(k) for k in qkeys], 'rkeys': [jnp.asarray(k) for k in rkeys],
                    'bits': jnp.asarray(new.num_bits - st.num_bits, jnp.float32), 'rng_old': st.rng, 'rng_new': new.rng,
                    'ncalls': (len(qkeys), len(rkeys))})
        st = new
        continue
      for i in range(len(weights)):
        p = trees[rnd][i]
        if name == 'uniform':
          ref_q.append(S['q'](p, LEVELS, qkeys[i]))
        elif name == 'terngrad':
          ref_q.append(S['t'](p, qkeys[i]))
        elif name == 'rotated_uniform':
          rp, shp = S['r'](p, rkeys[i])
          ref_q.append(S['i'](S['q'](rp, LEVELS, qkeys[i]), rkeys[i], shp))
        else:
          rp, shp = S['r'](p, rkeys[i])
          ref_q.append(S['i'](S['d'](rp), rkeys[i], shp))
      tot = sum(weights)
      ref = jax.tree_util.tree_map(lambda *ls: sum(w * l for w, l in zip(weights, ls)) / tot, *ref_q) if tot > 0 else \
          jax.tree_util.tree_map(jnp.zeros_like, ref_q[0])
      res.append({'out': out, 'ref': ref, 'qkeys': [jnp.asarray(k) for k in qkeys], 'rkeys': [jnp.asarray(k) for k in rkeys],
                  'bits': jnp.asarray(new.num_bits - st.num_bits, jnp.float32), 'rng_old': st.rng, 'rng_new': new.rng,
                  'ncalls': (len(qkeys), len(rkeys))})
      st = new
    return res
  return fn


def key_of(arr):
  e = arr.reshape(-1)[0]
  return e.key if isinstance(e, sj.RawKey) else e


def run_agg(run, name, weights, shapes, timeout):
  nm = 'agg:%s[w=%s,shapes=%s]' % (name, weights, shapes)
  h = jh.Harness(run, nm, timeout)
  nc = len(weights)
  ctx = new_ctx(LEVELS)
  trees = [[{k: sj.symarr('p%d_%d%s' % (r, i, k), s) for k, s in shapes.items()} for i in range(nc)] for r in range(2)]
  key = sj.rawkeyarr('k')
  sym = (trees, key)
  viol = []
  try:
    res, _, _, _ = sj.run_symbolic(agg_fn(name, weights, shapes), jh.abstract_of(sym), sym, ctx=ctx)
    goals = []
    allq, allr = [], []
    for rnd, r in enumerate(res):
      for (p, a), (_, b) in zip(jh.flat_with_paths(r['out']), jh.flat_with_paths(r['ref'])):
        for idx in np.ndindex(*a.shape):
          goals.append(('round%d:mean-of-quantised%s%s' % (rnd, p, list(idx)), sj.same(a[idx], b[idx])))
          if name in ('uniform', 'terngrad'):
            goals.append(('round%d:finite%s%s' % (rnd, p, list(idx)), sj.finite(a[idx])))
      qk = [key_of(k) for k in r['qkeys']]
      rk = [key_of(k) for k in r['rkeys']]
      goals.append(('round%d:one-quantiser-key-per-client' % rnd, len(qk) == nc if name != 'drive' else len(rk) == nc))
      per_client = qk if name != 'drive' else rk
      goals.append(('round%d:client-keys-pairwise-distinct' % rnd, len(set(per_client)) == len(per_client)))
      allq += qk
      allr += [k for k in rk] if name == 'drive' else []
      nparams = sum(int(np.prod(s)) if s else 1 for s in shapes.values())
      eb = expected_bits(name, nparams, len(shapes))
      bv = r['bits'].reshape(-1)[0]
      goals.append(('round%d:bits-increment' % rnd, (not sj.is_z(bv)) and abs(float(bv) - eb) < 1e-3 * max(1.0, eb)))
      goals.append(('round%d:state-key-advances' % rnd, key_of(r['rng_old']) != key_of(r['rng_new'])))
    used = allq + allr
    goals.append(('keys-differ-across-rounds', len(set(used)) == len(used)))
    goals.append(('state-keys-not-reused-as-client-keys', not (set(used) & {key_of(res[0]['rng_new']), key_of(res[1]['rng_new'])})))
    viol = h.prove_all('agg', ctx, [], goals, abstract_noise=True)
  except Exception as e:   # pylint: disable=broad-except
    if jh.engine_fault(e):
      raise
    run.ob(nm + ':raises', 'sat', detail=repr(e)[:300])
    viol = [('raises %r' % (e,), None)]
  if viol:
    g, model = viol[0]
    data = {'kind': 'agg', 'name': name, 'weights': weights, 'shapes': {k: list(s) for k, s in shapes.items()}}
    if model is not None:
      data['trees'] = [[{k: sj.model_array(model, t[k]).tolist() for k in t} for t in rt] for rt in trees]
    ok, msg = replay_subprocess('C11', data)
    run.violation('agg:%s:%s' % (name, g.split(':')[-1].split('[')[0][:40]), 'aggregator %s violates %s: %s' % (name, g, msg), data, ok)


# ---- replay ----------------------------------------------------------------------------------------------
class FixedUniform:
  """Replay stub: jax.random.uniform returns the solver's draws (the quantiser code itself is the real one)."""

  def __init__(self, u):
    self.u = np.asarray(u, np.float64)

  def __enter__(self):
    self.saved = jax.random.uniform
    u = self.u

    def uniform(key=None, shape=(), dtype=None, minval=0.0, maxval=1.0, **kw):
      return jnp.asarray(u.reshape(shape) if u.size == int(np.prod(shape) or 1) else np.resize(u, shape))
    jax.random.uniform = uniform

  def __exit__(self, *a):
    jax.random.uniform = self.saved


def replay(data):
  c = C()
  kind = data['kind']
  key = jax.random.PRNGKey(0)
  if kind in ('uniform', 'binary', 'terngrad'):
    n = data['n']
    cases = [(np.asarray(data['v'], np.float64), np.asarray(data['u'], np.float64))] if 'v' in data else []
    rng = np.random.RandomState(0)
    cases += [(rng.randn(n) * 3, rng.rand(n)) for _ in range(20)] + [(np.zeros(n), rng.rand(n)), (np.ones(n) * 2.5, rng.rand(n))]
    for v, u in cases:
      with FixedUniform(u):
        try:
          if kind == 'uniform':
            out = np.asarray(c.uniform_stochastic_quantize(jnp.asarray(v), data['L'], key), np.float64)
          elif kind == 'binary':
            out = np.asarray(c.binary_stochastic_quantize(jnp.asarray(v), key), np.float64)
          else:
            out = np.asarray(c.terngrad_quantize(jnp.asarray(v), key), np.float64)
        except Exception as e:   # pylint: disable=broad-except
          return True, 'real quantiser raises %r' % (e,)
      msg = check_concrete(kind, v, u, out, data.get('L', 2))
      if msg:
        return True, 'v=%s u=%s -> %s: %s' % (v.tolist(), u.tolist(), out.tolist(), msg)
    if 'v' in data:
      # the encoding was traced at float32 (dtype-dependent constants such as finfo.eps are baked in): replay the model
      # input at float32 as well, with a tolerance of a few float32 ulps of the largest magnitude or 1e-3 of the range
      v, u = cases[0]
      v32 = np.asarray(v, np.float32)
      with FixedUniform(u):
        try:
          fn = {'uniform': lambda x: c.uniform_stochastic_quantize(x, data['L'], key), 'binary': lambda x: c.binary_stochastic_quantize(x, key),
                'terngrad': lambda x: c.terngrad_quantize(x, key)}[kind]
          out = np.asarray(fn(jnp.asarray(v32)), np.float64)
        except Exception as e:   # pylint: disable=broad-except
          return True, 'real quantiser raises %r (float32)' % (e,)
      v64 = np.asarray(v32, np.float64)
      tol = max(4 * 1.2e-7 * float(np.abs(v64).max()), 1e-3 * float(v64.max() - v64.min()))
      msg = check_concrete(kind, v64, u, out, data.get('L', 2), tol=tol)
      if msg:
        return True, '[float32] v=%s u=%s -> %s: %s' % (v64.tolist(), u.tolist(), out.tolist(), msg)
    return False, 'agrees on the model input (float64 and float32) and 22 further inputs'
  if kind == 'drive':
    v = np.asarray(data['v'], np.float64)
    out = np.asarray(c.drive_pytree({'a': jnp.asarray(v)})['a'], np.float64)
    if not np.all(np.isfinite(out)):
      return True, 'drive_pytree(%s) = %s' % (v.tolist(), out.tolist())
    l1, l2 = np.abs(v).sum(), (v ** 2).sum()
    exp = l2 * np.sign(v) / l1 if l1 > 0 else np.zeros_like(v)
    return bool(np.max(np.abs(out - exp)) > 1e-9 * (1 + l2)), 'drive_pytree(%s) = %s expected %s' % (v.tolist(), out.tolist(), exp.tolist())
  if kind == 'arith':
    return aux_arithmetic_bits()
  # aggregators: concrete run with recording
  name, weights = data['name'], data['weights']
  shapes = {k: tuple(s) for k, s in data['shapes'].items()}
  rng = np.random.RandomState(0)
  trees = [[{k: jnp.asarray(rng.randn(*s) * 2) for k, s in shapes.items()} for _ in weights] for _ in range(2)]
  if data.get('trees'):
    trees = [[{k: jnp.asarray(np.asarray(t[k], np.float64)) for k in t} for t in rt] for rt in data['trees']]
  try:
    res = agg_fn(name, weights, shapes)(trees, jax.random.PRNGKey(5))
  except Exception as e:   # pylint: disable=broad-except
    return True, 'real aggregator raises %r' % (e,)
  msgs = []
  used = []
  nparams = sum(int(np.prod(s)) if s else 1 for s in shapes.values())
  for rnd, r in enumerate(res):
    if not all(np.all(np.isfinite(np.asarray(l))) for l in jax.tree_util.tree_leaves(r['out'])):
      msgs.append('round %d: non-finite aggregate %s' % (rnd, jax.tree_util.tree_map(lambda l: np.asarray(l).tolist(), r['out'])))
    d, where = jh.max_discrepancy(r['out'], r['ref'])
    if d > 1e-6:
      msgs.append('round %d: output is not the weighted mean of the per-client quantised trees (%s)' % (rnd, where))
    per = [tuple(np.asarray(k).tolist()) for k in (r['rkeys'] if name == 'drive' else r['qkeys'])]
    if len(per) != len(weights) or len(set(per)) != len(per):
      msgs.append('round %d: per-client keys %s are not pairwise distinct' % (rnd, per))
    used += per
    if abs(float(r['bits']) - expected_bits(name, nparams, len(shapes))) > 1e-3 * expected_bits(name, nparams, len(shapes)):
      msgs.append('round %d: bit increment %s, documented formula gives %s' % (rnd, float(r['bits']), expected_bits(name, nparams, len(shapes))))
    if np.array_equal(np.asarray(r['rng_old']), np.asarray(r['rng_new'])):
      msgs.append('round %d: aggregator key not advanced' % rnd)
  if len(set(used)) != len(used):
    msgs.append('keys reused across rounds')
  return bool(msgs), '; '.join(msgs[:3]) or 'agrees'


def aux_arithmetic_bits():
  """Auxiliary CONCRETE run (the arithmetic-coding bit count needs jnp.unique and is outside the symbolic engine):
  over 3 rounds with different cohorts the reported increment must equal the mean over this round's clients of the
  documented per-client cost, computed by the real arithmetic_encoding_num_bits on the recorded quantised trees."""
  c = C()
  agg = c.uniform_stochastic_quantizer(4, jax.random.PRNGKey(1), 'arithmetic')
  st = agg.init()
  rng = np.random.RandomState(0)
  msgs = []
  orig = c.uniform_stochastic_quantize_pytree
  for rnd, (nc, scale) in enumerate([(2, 1.0), (3, 10.0), (1, 0.1)]):
    got = []

    def rec(params, num_levels, key):
      out = orig(params, num_levels, key)
      got.append(out)
      return out
    c.uniform_stochastic_quantize_pytree = rec
    try:
      cl = [(b'c%d' % i, {'w': jnp.asarray(np.round(rng.randn(6) * scale, 1)), 'b': jnp.asarray(rng.randn(2) * scale)}, 1.0 + i) for i in range(nc)]
      _, new = agg.apply(cl, st)
    finally:
      c.uniform_stochastic_quantize_pytree = orig
    per_client = [float(sum(c.arithmetic_encoding_num_bits(l) for l in jax.tree_util.tree_leaves(q))) for q in got]
    exp = sum(per_client) / len(per_client)
    inc = float(new.num_bits - st.num_bits)
    if abs(inc - exp) > 1e-3 * max(1.0, exp):
      msgs.append('round %d: bit increment %.3f, mean per-client arithmetic-coding cost of this round %.3f' % (rnd + 1, inc, exp))
    st = new
  return bool(msgs), '; '.join(msgs) or 'agrees'


def check_concrete(kind, v, u, out, L, tol=None):
  if not np.all(np.isfinite(out)):
    return 'non-finite output'
  tol = 1e-9 * (1 + np.abs(v).max()) if tol is None else tol
  if kind in ('uniform', 'binary'):
    m, M = v.min(), v.max()
    r = M - m
    if r == 0:
      return None if np.all(np.abs(out - v) <= tol) else 'constant vector not a fixed point'
    for i in range(len(v)):
      on_grid = [m + k * r / (L - 1) for k in range(L) if abs(v[i] - (m + k * r / (L - 1))) <= tol]
      if on_grid and abs(out[i] - v[i]) > tol:
        return 'coordinate %d: on-grid value %r not a fixed point (got %r)' % (i, v[i], out[i])
      ok = False
      for k in range(L - 1):
        gk, gk1 = m + k * r / (L - 1), m + (k + 1) * r / (L - 1)
        if gk - tol <= v[i] <= gk1 + tol:
          lo_ok = abs(out[i] - gk) <= tol
          hi_ok = abs(out[i] - gk1) <= tol
          if not (lo_ok or hi_ok):
            continue
          t = (v[i] - gk)
          if u[i] * (gk1 - gk) > t + tol and not lo_ok:
            continue
          if u[i] * (gk1 - gk) < t - tol and not hi_ok:
            continue
          ok = True
      if not ok:
        return 'coordinate %d: %r is not the level selected by the threshold law among the neighbours of %r on the %d-level grid [%r, %r]' % (i, out[i], v[i], L, m, M)
    return None
  sig = v.std()
  vc = np.clip(v, -2.5 * sig, 2.5 * sig)
  s = np.abs(vc).max()
  for i in range(len(v)):
    exp_hi = s * np.sign(vc[i])
    if not (abs(out[i]) <= tol or abs(out[i] - exp_hi) <= tol):
      return 'coordinate %d: %r not in {0, %r}' % (i, out[i], exp_hi)
    if u[i] * s < abs(vc[i]) - tol and abs(out[i] - exp_hi) > tol:
      return 'coordinate %d: threshold law (u*s < |v|) requires %r, got %r' % (i, exp_hi, out[i])
    if u[i] * s > abs(vc[i]) + tol and abs(out[i]) > tol:
      return 'coordinate %d: threshold law (u*s > |v|) requires 0, got %r' % (i, out[i])
  return None


def check(run):
  thorough = run.tier == 'thorough'
  timeout = 90.0 if not thorough else 300.0
  run.functions += ['compression.binary_stochastic_quantize', 'uniform_stochastic_quantize(_pytree)', 'terngrad_quantize(_pytree)',
                    'drive_pytree', 'uniform/rotated_uniform/structured_drive/terngrad aggregators .apply', 'walsh_hadamard rotations', 'tree_util.tree_mean']
  run.trusted += ['z3', 'vf/symjx.py interpreter (min/max as fresh variables with defining facts; bounded floor as ite chain, range proved)',
                  'uniform draws = fresh reals in [0,1) named by (key term, position)',
                  'unbiasedness is stated as the threshold law of a two-valued output (E_u[out] = v is its integral over one uniform variable)',
                  'observation hooks record which key each client\'s quantiser call receives']
  run.assumptions += ['finite real inputs; huge dynamic range is a float issue (reals here)',
                      "bit accounting claimed for the default encoder only ('arithmetic' needs jnp.unique: not traceable)"]
  ns = [1, 2, 3] if not thorough else [1, 2, 3, 4]
  Ls = [2, 3] if not thorough else [2, 3, 4, 5]
  run.bounds = {'vector length': ns, 'TernGrad vector length': [1, 2], 'levels': Ls, 'clients': '2 (3 with a zero weight)', 'rounds': 2, 'leaves': '<=2 incl. a scalar leaf'}
  for n in ns:
    for L in Ls:
      run_uniform(run, n, L, timeout)
    run_uniform(run, n, 2, timeout, binary=True)
    if n <= 2:      # n >= 3: the standard-deviation clip makes the query non-linear in 3+ variables; z3's NRA ran for hours without an
      run_terngrad(run, n, timeout)      # answer (and without honouring its timeout), so TernGrad is claimed for n <= 2 only, in both tiers
    run_drive(run, n, timeout)
  bad, msg = aux_arithmetic_bits()
  run.ob('aux-concrete:arithmetic-encoder-bit-accounting(3 rounds)', 'sat' if bad else 'unsat', detail=msg if bad else None, nontrivial=False)
  if bad:
    run.violation('agg:uniform:arithmetic-bits', 'uniform quantizer (arithmetic encoder): %s' % msg, {'kind': 'arith'}, True)
  shapes1 = {'a': (2,)}
  shapes2 = {'a': (2,), 'b': ()}
  for name in AGGS:
    run_agg(run, name, [2.0, 1.0], shapes1, timeout)
    if thorough or name in ('drive', 'rotated_uniform'):      # a scalar leaf goes through the rotation's shape bookkeeping
      run_agg(run, name, [1.0, 0.0, 3.0] if thorough else [1.0, 2.0], shapes2, timeout)
