"""C02: all for-each-client backends equal the sequential per-client fold (Engine J; thread scoping via Engine X)."""
import contextlib
import itertools
import json
import os

import numpy as np
import z3

import jax
import jax.numpy as jnp
from jax.extend import core as jcore

from .. import symjx as sj
from .. import jh
from .. import ufs
from .c01 import replay_subprocess

LEVEL = 'model_checking'
SD = 2   # state / output width


def FEC():
  from fedjax.core import for_each_client
  return for_each_client


# ---- uninterpreted client program ----------------------------------------------------------------------
def uf_program(with_result, nanable=True):
  ini = ufs.make_uf('cinit', nanable=False)
  stp = ufs.make_uf('cstep', nanable=nanable)
  fin = ufs.make_uf('cfinal', nanable=False)
  like_s = jax.ShapeDtypeStruct((SD,), np.float32)
  like_r = jax.ShapeDtypeStruct((), np.float32)

  def client_init(shared, cin):
    return {'s': ufs.uf_call(ini, like_s, shared, cin)}

  def client_step(state, batch):
    s, r = ufs.uf_call(stp, (like_s, like_r), state['s'], batch['x'])
    return ({'s': s}, {'r': r}) if with_result else {'s': s}

  def client_final(shared, state):
    return {'o': ufs.uf_call(fin, like_s, shared, state['s'])}
  return client_init, client_step, client_final


def spec(shared, cin, batches, with_result):
  ci, cs, cf = uf_program(True)
  s = ci(shared, cin)
  rs = []
  for b in batches:
    s, r = cs(s, b)
    rs.append(r)
  return cf(shared, s), rs


# ---- the pinned JAX removed the APIs the pmap backend calls: model them --------------------------------
@contextlib.contextmanager
def pmap_model(ndev):
  """pmap(f) = vmap(f) over axis 0 (its semantics for collective-free f); device_put_sharded = stack;
  device_put_replicated = broadcast; local_devices = ndev tokens; device_put = identity."""
  saved = {k: getattr(jax, k, None) for k in ('pmap', 'device_put_sharded', 'device_put_replicated', 'local_devices', 'device_put')}

  def pmap(f, *a, donate_argnums=(), **kw):
    return jax.vmap(f)

  def sharded(xs, devices):
    return jax.tree_util.tree_map(lambda *ls: jnp.stack([jnp.asarray(l) for l in ls]), *xs)

  def replicated(x, devices):
    return jax.tree_util.tree_map(lambda l: jnp.broadcast_to(jnp.asarray(l), (len(devices),) + jnp.shape(l)), x)
  jax.pmap, jax.device_put_sharded, jax.device_put_replicated = pmap, sharded, replicated
  jax.local_devices = lambda *a, **k: ['dev%d' % i for i in range(ndev)]
  jax.device_put = lambda x, *a, **k: x
  try:
    yield
  finally:
    for k, v in saved.items():
      if v is None:
        if hasattr(jax, k):
          delattr(jax, k)
      else:
        setattr(jax, k, v)


def run_backend(fec, backend, ndev, with_result, shared, cins, batches, ids, as_generators=False):
  """Runs the REAL backend code; returns list of (id, output, step_results)."""
  ci, cs, cf = uf_program(with_result)
  clients = [(ids[i], ((b for b in batches[i]) if as_generators else list(batches[i])), cins[i]) for i in range(len(ids))]
  if backend == 'pmap':
    with pmap_model(ndev):
      be = fec.ForEachClientPmapBackend()
      with fec.for_each_client_backend(be):
        f = fec.for_each_client(ci, cs, cf, with_step_result=with_result)
      res = list(f(shared, clients))
  else:
    with fec.for_each_client_backend(backend):
      f = fec.for_each_client(ci, cs, cf, with_step_result=with_result)
    res = list(f(shared, iter(clients) if as_generators else clients))
  return res


def code_fn(cfg):
  fec = FEC()
  nb = cfg['nbatches']
  ids = [b'id%d' % i if i else b'' for i in range(len(nb))] if cfg.get('falsy_id') else [b'id%d' % i for i in range(len(nb))]

  def fn(shared, cins, xs):
    batches = [[{'x': xs[i][j]} for j in range(nb[i])] for i in range(len(nb))]
    res = run_backend(fec, cfg['backend'], cfg.get('ndev', 2), cfg['with_result'], shared, [cins[i] for i in range(len(nb))], batches, ids,
                      as_generators=cfg.get('gen', False))
    got_ids = [r[0] for r in res]
    if sorted(map(repr, got_ids)) != sorted(map(repr, ids)):
      raise AssertionError('yielded client ids %r, input ids %r (exactly one result per input client expected)' % (got_ids, ids))
    by = {repr(r[0]): r for r in res}
    out = []
    for cid in ids:
      r = by[repr(cid)]
      steps = r[2] if cfg['with_result'] else []
      if cfg['with_result'] and len(steps) != nb[ids.index(cid)]:
        raise AssertionError('client %r: %d step results for %d batches' % (cid, len(steps), nb[ids.index(cid)]))
      out.append({'o': r[1], 'steps': list(steps)})
    return out
  return fn


def ref_fn(cfg):
  nb = cfg['nbatches']

  def fn(shared, cins, xs):
    out = []
    for i in range(len(nb)):
      o, rs = spec(shared, cins[i], [{'x': xs[i][j]} for j in range(nb[i])], cfg['with_result'])
      out.append({'o': o, 'steps': rs if cfg['with_result'] else []})
    return out
  return fn


def sym_inputs(cfg):
  nb = cfg['nbatches']
  shared = sj.symarr('sh', (2,))
  cins = sj.symarr('ci', (max(len(nb), 1), 2))
  xs = [[sj.symarr('x%d_%d' % (i, j), (2,)) for j in range(nb[i])] for i in range(len(nb))]
  return shared, cins, xs


def run_config(run, cfg, timeout):
  name = 'cfg[%s]' % ','.join('%s=%s' % (k, cfg[k]) for k in sorted(cfg))
  h = jh.Harness(run, name, timeout)
  sym = sym_inputs(cfg)
  try:
    cexs = h.equiv(code_fn(cfg), ref_fn(cfg), sym)
  except Exception as e:   # pylint: disable=broad-except
    if jh.engine_fault(e):
      raise
    run.ob(name + ':raises', 'sat', detail=repr(e)[:300])
    cexs = [{'model': None, 'error': repr(e)}]
  if cexs:
    data = {'kind': 'fold', 'cfg': cfg}
    # pmap configurations are replayed on the REAL jax.pmap with forced host devices
    env = {'XLA_FLAGS': '--xla_force_host_platform_device_count=%d' % cfg['ndev']} if cfg['backend'] == 'pmap' else None
    ok, msg = replay_subprocess('C02', data, env)
    run.violation('%s:%s' % (cfg['backend'], 'fold'), '%s backend differs from the sequential fold for %s: %s' % (cfg['backend'], json.dumps(cfg), msg), data, ok)
  return cexs


# ---- concrete replay with a real client program (step counter + NaN on an all-zero batch) -----------------
def concrete_program(with_result):
  def client_init(shared, cin):
    return {'s': jnp.stack([shared[0] + cin[0], cin[1] * 1.0])}

  def client_step(state, batch):
    x = batch['x']
    mean = jnp.sum(x) / jnp.sum(x != 0)            # NaN on an all-zero padding batch
    s = jnp.stack([state['s'][0] + 1.0, state['s'][1] * 0.5 + mean])
    return ({'s': s}, {'r': mean}) if with_result else {'s': s}

  def client_final(shared, state):
    return {'o': state['s'] * shared[1]}
  return client_init, client_step, client_final


def replay_fold(cfg):
  fec = FEC()
  nb = cfg['nbatches']
  ids = [b'id%d' % i if i else b'' for i in range(len(nb))] if cfg.get('falsy_id') else [b'id%d' % i for i in range(len(nb))]
  rng = np.random.RandomState(0)
  shared = jnp.asarray([0.5, 2.0])
  cins = [jnp.asarray(rng.rand(2) + 1) for _ in nb]
  batches = [[{'x': jnp.asarray(rng.rand(2) + 1)} for _ in range(n)] for n in nb]
  ci, cs, cf = concrete_program(cfg['with_result'])
  clients = [(ids[i], ((b for b in batches[i]) if cfg.get('gen') else list(batches[i])), cins[i]) for i in range(len(ids))]
  real_pmap = cfg['backend'] == 'pmap' and jax.local_device_count() >= cfg.get('ndev', 2)
  try:
    if real_pmap:
      with fec.for_each_client_backend(fec.ForEachClientPmapBackend(jax.local_devices()[:cfg['ndev']])):
        f = fec.for_each_client(ci, cs, cf, with_step_result=cfg['with_result'])
      res = list(f(shared, clients))
    elif cfg['backend'] == 'pmap':
      with pmap_model(cfg.get('ndev', 2)):
        with fec.for_each_client_backend(fec.ForEachClientPmapBackend()):
          f = fec.for_each_client(ci, cs, cf, with_step_result=cfg['with_result'])
        res = list(f(shared, clients))
    else:
      with fec.for_each_client_backend(cfg['backend']):
        f = fec.for_each_client(ci, cs, cf, with_step_result=cfg['with_result'])
      res = list(f(shared, iter(clients) if cfg.get('gen') else clients))
  except Exception as e:   # pylint: disable=broad-except
    return True, 'real backend raises %s: %s' % (type(e).__name__, str(e).split('\n')[0][:160])
  msgs = []
  if sorted(repr(r[0]) for r in res) != sorted(map(repr, ids)):
    msgs.append('yielded ids %r for input ids %r' % ([r[0] for r in res], ids))
  by = {repr(r[0]): r for r in res}
  for i, cid in enumerate(ids):
    if repr(cid) not in by:
      continue
    s = ci(shared, cins[i])
    rs = []
    for b in batches[i]:
      out = cs(s, b)
      s, r = out if cfg['with_result'] else (out, None)
      rs.append(r)
    exp = cf(shared, s)
    d, where = jh.max_discrepancy(by[repr(cid)][1], exp)
    if d > 1e-6:
      msgs.append('client %r output %s, sequential fold gives %s' % (cid, np.asarray(by[repr(cid)][1]['o']).tolist(), np.asarray(exp['o']).tolist()))
    if cfg['with_result']:
      got = by[repr(cid)][2]
      if len(got) != len(rs) or (rs and jh.max_discrepancy(list(got), rs)[0] > 1e-6):
        msgs.append('client %r step results %s, expected %s' % (cid, [np.asarray(g['r']).tolist() for g in got], [np.asarray(r['r']).tolist() for r in rs]))
  return bool(msgs), ('[real jax.pmap, %d devices] ' % cfg['ndev'] if real_pmap else '') + ('; '.join(msgs[:3]) or 'agrees with the sequential fold')


# ---- caller's arrays stay valid: donation dataflow + concrete confirmation --------------------------------
def forwarding_program(with_result=False):
  """A client program whose init forwards its inputs into the state (like the algorithms do with rng / client state).
  with_result: every step also returns a per-step result of the same shape/dtype as a batch leaf (a buffer XLA could reuse)."""
  def client_init(shared, cin):
    return {'p': shared['w'], 'k': cin['k'], 'acc': cin['start']}

  def client_step(state, batch):
    new = {'p': state['p'], 'k': state['k'] + 1.0, 'acc': state['acc'] + jnp.sum(batch['x'] * state['p'])}
    if with_result:
      return new, {'scaled': batch['x'] * state['k'], 'row': batch['r'] + 1}
    return new

  def client_final(shared, state):
    return {'acc': state['acc'], 'k': state['k']}
  return client_init, client_step, client_final


def donation_check(backend):
  p1, c1 = _donation_check(backend, False)
  p2, c2 = _donation_check(backend, True)
  return p1 + p2, c1 + c2


def _donation_check(backend, with_result):
  fec = FEC()
  ci, cs, cf = forwarding_program(with_result)
  bt = lambda *v: {'x': jnp.asarray(list(v)), 'r': jnp.asarray([7, 8, 9], jnp.int32)}
  mk = lambda: ({'w': jnp.asarray([1.0, 2.0])},
                [{'k': jnp.asarray(3.0), 'start': jnp.asarray(0.5)}, {'k': jnp.asarray(4.0), 'start': jnp.asarray(1.5)}],
                [[bt(1.0, 1.0), bt(2.0, 0.0)], [bt(0.0, 3.0)]])
  shared, cins, batches = mk()
  with fec.for_each_client_backend(backend):
    f = fec.for_each_client(ci, cs, cf, with_step_result=with_result)
  outs = (lambda r: r[1:]) if with_result else (lambda r: r[1:])

  def traced(sh, cn, bt):
    return [outs(r) for r in f(sh, [(b'a', bt[0], cn[0]), (b'b', bt[1], cn[1])])]
  problems = []
  if backend == 'jit':
    closed = jax.make_jaxpr(traced)(shared, cins, batches)
    jp = closed.jaxpr
    invars = set(jp.invars)
    ndon = 0
    for i, eqn in enumerate(jp.eqns):
      don = eqn.params.get('donated_invars')
      if not don:
        continue
      for v, d in zip(eqn.invars, don):
        if d:
          ndon += 1
        if d and not isinstance(v, jcore.Literal) and v in invars:
          problems.append('jit call %s donates a caller-owned input (shared input / client input / batch)' % eqn.params.get('name', '?'))
    for o in jp.outvars:
      if o in invars:
        problems.append('a client output aliases a caller-owned input array')
  # concrete confirmation
  shared, cins, batches = mk()
  copies = jax.tree_util.tree_map(lambda a: np.asarray(a).copy(), (shared, cins, batches))
  list(f(shared, [(b'a', batches[0], cins[0]), (b'b', batches[1], cins[1])]))
  concrete = []
  for a, c in zip(jax.tree_util.tree_leaves((shared, cins, batches)), jax.tree_util.tree_leaves(copies)):
    if a.is_deleted():
      concrete.append('a caller-owned array was deleted (donated) by the call')
    elif not np.array_equal(np.asarray(a), c):
      concrete.append('a caller-owned array changed value')
  return problems, concrete


# ---- finding F8: the real pmap backend in the pinned JAX ------------------------------------------------
def real_pmap_probe():
  fec = FEC()
  ci, cs, cf = forwarding_program()
  try:
    with fec.for_each_client_backend('pmap'):
      f = fec.for_each_client(ci, cs, cf)
    list(f({'w': jnp.asarray([1.0, 2.0])}, [(b'a', [{'x': jnp.asarray([1.0, 1.0])}], {'k': jnp.asarray(3.0), 'start': jnp.asarray(0.5)})]))
    return None
  except Exception as e:   # pylint: disable=broad-except
    return '%s: %s' % (type(e).__name__, str(e).split('\n')[0][:200])


def replay(data):
  if data['kind'] == 'fold':
    return replay_fold(data['cfg'])
  if data['kind'] == 'donation':
    problems, concrete = donation_check(data['backend'])
    return bool(concrete), '; '.join(concrete) or 'inputs alive and unchanged'
  if data['kind'] == 'real_pmap':
    err = real_pmap_probe()
    return err is not None, err or 'real pmap backend ran'
  if data['kind'] == 'threads':
    from . import c02_threads
    return c02_threads.replay(data)
  return False, 'unknown replay kind'


def configs(tier):
  out = []
  profiles = [[2, 1, 0], [1, 3], [0], [], [2, 2, 2]] if tier == 'quick' else \
      [[2, 1, 0], [1, 3], [0], [], [2, 2, 2], [0, 0, 1], [3, 0, 2, 1], [1, 1, 1, 1, 1]]
  for nb in profiles:
    for backend in ('jit', 'debug'):
      for wr in (True, False):
        out.append(dict(backend=backend, nbatches=nb, with_result=wr))
    for ndev in ((1, 2, 3) if tier == 'quick' else (1, 2, 3, 4)):
      for wr in ((True,) if tier == 'quick' and ndev != 2 else (True, False)):
        out.append(dict(backend='pmap', nbatches=nb, with_result=wr, ndev=ndev))
  out.append(dict(backend='jit', nbatches=[2, 1], with_result=True, gen=True))
  out.append(dict(backend='debug', nbatches=[2, 1], with_result=True, gen=True))
  out.append(dict(backend='pmap', nbatches=[1, 2, 1], with_result=True, ndev=2, falsy_id=True))
  out.append(dict(backend='jit', nbatches=[1, 2], with_result=True, falsy_id=True))
  return out


def check(run):
  timeout = 20.0 if run.tier == 'quick' else 120.0
  cfgs = configs(run.tier)
  run.functions += ['for_each_client.ForEachClientJitBackend / ForEachClientDebugBackend / ForEachClientPmapBackend (+_blockify)',
                    'for_each_client.for_each_client (with and without step results)',
                    'set_/get_/for_each_client_backend + BackendChoice (thread scoping)']
  run.trusted += ['z3', 'vf/symjx.py interpreter', 'uninterpreted client programs (init/step/final); step outputs carry an uninterpreted NaN flag',
                  'API model for the pmap backend: pmap = vmap over axis 0, device_put_sharded = stack, device_put_replicated = broadcast, '
                  'local_devices = n tokens (the real APIs no longer exist in the pinned JAX)']
  run.assumptions += ['client programs are collective-free pure functions', 'real multi-device execution is outside the claim',
                      'order of yielded clients is free (the pmap backend documents reordering); ids must match exactly once each']
  run.bounds = {'clients': '0..5', 'batches per client': '0..3', 'devices': '1..4', 'configs': len(cfgs)}
  for cfg in cfgs:
    run_config(run, cfg, timeout)
  # donation dataflow (auxiliary)
  for backend in ('jit', 'debug'):
    problems, concrete = donation_check(backend)
    run.ob('donation-dataflow:%s' % backend, 'sat' if (problems or concrete) else 'unsat', detail=(problems + concrete)[:3] or None, nontrivial=(backend == 'jit'))
    if problems or concrete:
      run.violation('%s:caller-arrays-invalidated' % backend, '%s backend: %s' % (backend, '; '.join((problems + concrete)[:2])),
                    {'kind': 'donation', 'backend': backend}, bool(concrete))
  # the real pmap backend in this environment
  err = real_pmap_probe()
  run.ob('real-pmap-backend-runs', 'sat' if err else 'unsat', detail=err, nontrivial=False)
  if err:
    run.violation('pmap:removed-jax-api', 'the real pmap backend cannot run in the pinned JAX: %s' % err, {'kind': 'real_pmap'}, True)
  # the real jax.pmap backend on forced host devices (concrete layer; the symbolic claim uses the API model)
  for nb, ndev in (([2, 1, 0], 2), ([1, 3, 2, 0, 1], 3), ([0], 2)):
    cfgp = dict(backend='pmap', nbatches=nb, with_result=True, ndev=ndev)
    bad, msg = replay_subprocess('C02', {'kind': 'fold', 'cfg': cfgp}, {'XLA_FLAGS': '--xla_force_host_platform_device_count=%d' % ndev})
    run.ob('real-pmap-concrete:%s@%ddev' % (nb, ndev), 'sat' if bad else 'unsat', detail=msg, nontrivial=False)
    if bad:
      run.violation('pmap:real-concrete', 'real pmap backend on %d devices, batches %s: %s' % (ndev, nb, msg), {'kind': 'fold', 'cfg': cfgp}, True)
  # thread scoping of the backend choice (Engine X)
  from . import c02_threads
  c02_threads.check(run)
  # mutation witness: a fold that drops the last batch must be distinguishable
  silent = type(run)(run.pid, run.tier, run.seed)
  hm = jh.Harness(silent, 'mutwit', timeout)
  cm = dict(backend='jit', nbatches=[2, 1], with_result=True)
  bad = hm.equiv(code_fn(cm), ref_fn(dict(cm, nbatches=[1, 1])), sym_inputs(cm))
  run.witness('mutation-witness(dropping a batch is distinguishable)', 'mutation', bool(bad))
