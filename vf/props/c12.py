"""C12: degenerate hyper-parameters reduce every algorithm to FedAvg (Engine J).

Each algorithm's real `apply` is compared with the *definition* of a FedAvg round (sequential local steps,
example-weighted mean of deltas, server optimizer step) instantiated with the gradient the statement names."""
import json

import numpy as np
import z3

import jax
import jax.numpy as jnp

from .. import symjx as sj
from .. import jh
from .. import ufs
from .c01 import replay_subprocess, offsets, D

LEVEL = 'model_checking'


def _fx():
  import fedjax
  from fedjax.core import client_datasets, optimizers, models, for_each_client
  from fedjax.algorithms import fed_avg, fed_prox, hyp_cluster, mime_lite, mime, apfl
  return dict(fedjax=fedjax, cds=client_datasets, optimizers=optimizers, models=models, fed_avg=fed_avg,
              fed_prox=fed_prox, hyp_cluster=hyp_cluster, mime_lite=mime_lite, mime=mime, apfl=apfl)


def make_pel(fam, X, y):
  """per_example_loss(params, batch, rng) with data passed by index."""
  if fam in ('lin', 'linrng'):
    def pel(params, batch, rng):
      idx = batch['idx']
      loss = (X[idx] @ params['w'] + params['b'] - y[idx]) ** 2
      if fam == 'linrng':
        loss = loss + jax.random.uniform(rng, ()) * jnp.sum(params['w'])
      return loss
    return pel
  loss, _, _ = ufs.make_uf_loss('loss12')

  def pel(params, batch, rng):
    idx = np.asarray(batch['idx'])
    if len(idx) == 0:
      return jnp.zeros((0,))
    return jnp.stack([loss(params, (jnp.asarray(int(i), jnp.int32),), rng if fam == 'ufk' else None) for i in idx])
  return pel


def opt(kind, lr):
  o = _fx()['optimizers']
  if kind == 'sgd':
    return o.sgd(lr)
  if kind == 'momentum':
    return o.sgd(lr, momentum=0.5)
  raise ValueError(kind)


def hp(cfg):
  return _fx()['cds'].ShuffleRepeatBatchHParams(batch_size=cfg['batch'], num_epochs=cfg.get('epochs', 1),
                                                num_steps=cfg.get('steps'), seed=cfg.get('seed', 0))


def datasets(cfg):
  cds = _fx()['cds']
  return [cds.ClientDataset({'idx': np.arange(o, o + n, dtype=np.int32)}) for o, n in zip(offsets(cfg['sizes']), cfg['sizes'])]


def ids(cfg):
  return [b'c%02d' % i for i in range(len(cfg['sizes']))]


CLR, SLR = 0.5, 1.0
LAMBDA = 0.25


def reg_of(cfg):
  """regularizer(params) handed to the algorithm; the reference differentiates the same function."""
  if not cfg.get('reg'):
    return None
  return lambda p: LAMBDA * sum(jnp.sum(l * l) for l in jax.tree_util.tree_leaves(p))


def code_fn(cfg):
  F = _fx()
  alg_name = cfg['alg']

  def fn(w, b, X, y, mu, keys):
    pel = make_pel(cfg['fam'], X, y)
    copt, sopt = opt(cfg.get('copt', 'sgd'), CLR), opt(cfg.get('sopt', 'sgd'), SLR)
    pad = F['cds'].PaddedBatchHParams(batch_size=cfg.get('pad_batch', 2))
    if alg_name == 'fed_prox':
      alg = F['fed_prox'].fed_prox(pel, copt, sopt, hp(cfg), proximal_weight=(0.0 if cfg['mu'] == 'zero' else mu))
      state = alg.init({'w': w, 'b': b})
    elif alg_name == 'hyp_cluster':
      alg = F['hyp_cluster'].hyp_cluster(pel, copt, sopt, pad, hp(cfg), regularizer=reg_of(cfg))
      state = alg.init([{'w': w, 'b': b}])
    elif alg_name == 'mime_lite':
      alg = F['mime_lite'].mime_lite(pel, opt('sgd', CLR), hp(cfg), pad, server_learning_rate=1.0, regularizer=reg_of(cfg))
      state = alg.init({'w': w, 'b': b})
    elif alg_name == 'mime':
      alg = F['mime'].mime(pel, opt('sgd', CLR), hp(cfg), pad, server_learning_rate=cfg.get('slr', 0.25), regularizer=reg_of(cfg))
      state = alg.init({'w': w, 'b': b})
    elif alg_name == 'apfl':
      alg = F['apfl'].adaptive_personalized_federated_learning(F['models'].grad(pel), copt, sopt, hp(cfg), client_coefficient=0.5)
      state = alg.init({'w': w, 'b': b})
    elif alg_name == 'fed_avg':
      alg = F['fed_avg'].federated_averaging(F['models'].grad(pel), copt, sopt, hp(cfg))
      state = alg.init({'w': w, 'b': b})
    ds = datasets(cfg)
    for r in range(cfg.get('rounds', 1)):
      clients = [(cid, d, keys[r, i]) for i, (cid, d) in enumerate(zip(ids(cfg), ds))]
      state, _ = alg.apply(state, clients)
    if alg_name == 'hyp_cluster':
      return {'params': state.cluster_params[0], 'opt_state': state.opt_states[0]}
    if alg_name in ('mime_lite', 'mime'):
      return {'params': state.params}
    return {'params': state.params, 'opt_state': state.opt_state}
  return fn


def ref_fn(cfg):
  """FedAvg by definition with the gradient named in the statement."""
  F = _fx()
  sizes = cfg['sizes']
  batch_lists = [[np.asarray(bt['idx']) for bt in d.shuffle_repeat_batch(hp(cfg))] if len(d) else [] for d in datasets(cfg)]
  alg_name = cfg['alg']

  def fn(w, b, X, y, mu, keys):
    pel = make_pel(cfg['fam'], X, y)
    copt, sopt = opt(cfg.get('copt', 'sgd'), CLR), opt(cfg.get('sopt', 'sgd'), SLR)
    params = {'w': w, 'b': b}
    if alg_name == 'mime':
      # one full-batch gradient step over the cohort scaled by the server learning rate
      n = sum(sizes)
      allidx = np.arange(n, dtype=np.int32)
      rg = reg_of(cfg)
      g = jax.grad(lambda p: jnp.sum(pel(p, {'idx': allidx}, keys[0, 0])) / n + (rg(p) if rg else 0.0))(params)
      return {'params': jax.tree_util.tree_map(lambda p, q: p - cfg.get('slr', 0.25) * CLR * q, params, g)}
    sstate = sopt.init(params)
    for r in range(cfg.get('rounds', 1)):
      deltas = []
      for i in range(len(sizes)):
        k = keys[r, i]
        if alg_name == 'hyp_cluster':
          k = jax.random.split(k)[1]
        p, s = params, copt.init(params)
        for bidx in batch_lists[i]:
          if alg_name == 'apfl':
            k, use, _ = jax.random.split(k, 3)
          else:
            k, use = jax.random.split(k)
          srv = params

          def loss(q):
            l = jnp.mean(pel(q, {'idx': bidx}, use))
            if reg_of(cfg) is not None:
              l = l + reg_of(cfg)(q)
            if alg_name == 'fed_prox' and cfg['mu'] != 'zero':
              l = l + 0.5 * mu * sum(jnp.sum((a - c) ** 2) for a, c in zip(jax.tree_util.tree_leaves(srv), jax.tree_util.tree_leaves(q)))
            return l
          g = jax.grad(loss)(p)
          s, p = copt.apply(g, s, p)
        deltas.append(jax.tree_util.tree_map(lambda a, c: a - c, params, p))
      total = sum(sizes)
      if total > 0:
        mean = jax.tree_util.tree_map(lambda *ds: sum(n * d for n, d in zip(sizes, ds)) / total, *deltas)
        sstate, params = sopt.apply(mean, sstate, params)
      elif alg_name != 'hyp_cluster':
        sstate, params = sopt.apply(jax.tree_util.tree_map(jnp.zeros_like, params), sstate, params)
    if alg_name in ('mime_lite',):
      return {'params': params}
    return {'params': params, 'opt_state': sstate}
  return fn


def sym_inputs(cfg):
  n = max(sum(cfg['sizes']), 1)
  return (sj.symarr('w', (D,)), sj.symarr('b', ()), sj.symarr('X', (n, D)), sj.symarr('y', (n,)), sj.symarr('mu', ()),
          sj.rawkeyarr('k', (cfg.get('rounds', 1), len(cfg['sizes']))))


def run_config(run, cfg, timeout):
  name = 'cfg[%s]' % ','.join('%s=%s' % (k, cfg[k]) for k in sorted(cfg))
  h = jh.Harness(run, name, timeout)
  sym = sym_inputs(cfg)
  assum = [sym[4][()] > 0]
  real_device_get = jax.device_get
  jax.device_get = lambda x: x     # model: device_get returns the value (needed to trace HypCluster's assignment)
  try:
    cexs = h.equiv(code_fn(cfg), ref_fn(cfg), sym, assumptions=assum, index_domain=[0])
  except Exception as e:   # pylint: disable=broad-except
    if jh.engine_fault(e):
      raise
    run.ob(name + ':raises', 'sat', detail=repr(e)[:300])
    cexs = [{'model': None, 'error': repr(e)}]
  finally:
    jax.device_get = real_device_get
  return cexs, sym


def confirm(run, cfg, cex, sym):
  if cfg['fam'] not in ('lin', 'linrng'):
    return None
  if cex.get('model') is not None:
    args = jh.concrete_args(cex['model'], sym)
  else:
    rng = np.random.RandomState(0)
    args = [rng.randint(-2, 3, size=a.shape).astype(float) for a in sym[:4]] + [np.asarray(0.5), np.zeros(sym[5].shape, np.uint32)]
  data = {'cfg': cfg, 'args': [np.asarray(a).tolist() for a in args]}
  ok, msg = replay_subprocess('C12', data)
  key = '%s:%s' % (cfg['alg'], ','.join('%s=%s' % (k, cfg[k]) for k in sorted(cfg) if k in ('mu', 'copt', 'sopt')))
  if cex.get('error') and 'clip' in cex.get('error', ''):
    key = 'apfl:jnp.clip-signature'
  run.violation(key, '%s does not reduce to FedAvg for %s: %s' % (cfg['alg'], json.dumps(cfg), msg), data, ok)
  return ok


def replay(data):
  cfg = data['cfg']
  a = data['args']
  args = [jnp.asarray(np.asarray(x, dtype=np.float64)) for x in a[:5]] + [jnp.asarray(np.asarray(a[5], dtype=np.uint32))]
  try:
    outA = code_fn(cfg)(*args)
  except Exception as e:   # pylint: disable=broad-except
    return True, 'real code raises %s: %s' % (type(e).__name__, str(e).split('\n')[0][:200])
  outB = ref_fn(cfg)(*args)
  d, where = jh.max_discrepancy(outA, outB)
  return d > 1e-6, 'discrepancy %.3g at %s' % (d, where)


def configs(tier):
  base = dict(sizes=[3, 2], batch=2)
  out = []
  for fam in ('lin', 'ufk'):
    out.append(dict(base, alg='fed_prox', mu='zero', fam=fam))
    out.append(dict(base, alg='fed_prox', mu='sym', fam=fam, sizes=[3, 1], batch=1))   # 3 local steps
    out.append(dict(base, alg='mime_lite', fam=fam))
  out.append(dict(base, alg='mime_lite', fam='linrng'))
  out.append(dict(base, alg='fed_prox', mu='zero', fam='linrng', copt='momentum', sopt='momentum', rounds=2))
  for fam in ('lin', 'uf'):
    out.append(dict(base, alg='hyp_cluster', fam=fam, sopt='momentum', rounds=2))
    out.append(dict(base, alg='apfl', fam=fam))
    out.append(dict(base, alg='mime', fam=fam, steps=1, epochs=None))
  out.append(dict(base, alg='hyp_cluster', fam='lin', sizes=[2, 0, 1]))
  # stateful client optimizer over >= 2 local steps; a client returning in round 2 (APFL keeps per-client state)
  out.append(dict(base, alg='hyp_cluster', fam='lin', sizes=[2, 1], batch=1, copt='momentum'))
  out.append(dict(base, alg='apfl', fam='lin', sizes=[2, 1], batch=1, copt='momentum', rounds=2))
  out.append(dict(base, alg='fed_prox', mu='sym', fam='lin', sizes=[2, 1], batch=1, copt='momentum'))
  # a regularizer is part of the objective: Mime's single step and MimeLite / HypCluster local training include it exactly once
  out.append(dict(base, alg='mime', fam='lin', steps=1, epochs=None, reg=True))
  out.append(dict(base, alg='mime_lite', fam='lin', reg=True))
  out.append(dict(base, alg='hyp_cluster', fam='lin', reg=True))
  if tier == 'thorough':
    for sizes in ([2, 0, 3], [4, 1], [1, 1, 1]):
      for fam in ('lin', 'ufk'):
        out.append(dict(base, alg='fed_prox', mu='sym', fam=fam, sizes=sizes, rounds=2, copt='momentum'))
        out.append(dict(base, alg='mime_lite', fam=fam, sizes=sizes, rounds=2))
      out.append(dict(base, alg='hyp_cluster', fam='lin', sizes=sizes, rounds=2, copt='momentum', sopt='momentum'))
      out.append(dict(base, alg='apfl', fam='lin', sizes=sizes, rounds=2, sopt='momentum'))
      if 0 not in sizes:
        out.append(dict(base, alg='mime', fam='lin', sizes=sizes, steps=1, epochs=None, pad_batch=3))
  return out


def check(run):
  timeout = 20.0 if run.tier == 'quick' else 120.0
  cfgs = configs(run.tier)
  run.functions += ['fedjax.algorithms.fed_prox.fed_prox', 'hyp_cluster.hyp_cluster (1 cluster)', 'mime_lite.mime_lite',
                    'mime.mime', 'apfl.adaptive_personalized_federated_learning', 'models.grad', 'AverageLossEvaluator']
  run.trusted += ['z3', 'vf/symjx.py interpreter', 'jax.device_get modelled as identity while tracing HypCluster',
                  'Python-level list indexing by the traced argmin concretised over the domain {0}']
  run.assumptions += ['reference = the definition of a FedAvg round (C01) instantiated with the gradient named in the statement',
                      'HypCluster/APFL/Mime compared with key-ignoring losses (their key schedules differ from FedAvg by design)',
                      'proximal weight mu symbolic > 0']
  run.bounds = {'clients': '<=3', 'sizes': '0..4', 'rounds': '<=2', 'configs': len(cfgs)}
  ok, worst = jh.validate_translation(
      lambda w, b, X, y, mu, k: code_fn(dict(sizes=[3, 2], batch=2, alg='fed_prox', mu='sym', fam='lin'))(w, b, X, y, mu, k),
      jh.abstract_of(sym_inputs(dict(sizes=[3, 2]))), run.seed)
  run.witness('translator-validation', 'translation', ok, 'worst %.2g' % worst)
  for cfg in cfgs:
    cexs, sym = run_config(run, cfg, timeout)
    if cexs:
      if confirm(run, cfg, cexs[0], sym) is None:
        twin = dict(cfg, fam='linrng' if cfg['fam'] == 'ufk' else 'lin')
        c2, sym2 = run_config(run, twin, timeout)
        if c2:
          confirm(run, twin, c2[0], sym2)
        else:
          run.fail('counterexample only in the uninterpreted family (not replayable): %s' % json.dumps(cfg))
  # mutation witness: FedProx with mu > 0 must be distinguishable from plain FedAvg
  silent = type(run)(run.pid, run.tier, run.seed)
  hm = jh.Harness(silent, 'mutwit', timeout)
  cm = dict(sizes=[3, 1], batch=1, alg='fed_prox', mu='sym', fam='lin')
  symm = sym_inputs(cm)
  bad = hm.equiv(code_fn(cm), ref_fn(dict(cm, mu='zero')), symm, assumptions=[symm[4][()] > 0])
  run.witness('mutation-witness(prox term distinguishable)', 'mutation', bool(bad))
