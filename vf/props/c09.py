"""C09: an interrupted experiment resumes to the uninterrupted result (Engine X: CrossHair, crash points symbolic)."""
import ast
import os
import sys

from .. import xh

LEVEL = 'model_checking'
HARNESS = 'c09_h.py'


def configs(tier):
  # (num_rounds, checkpoint_frequency, keep, eval_frequency)
  quick = [(1, 1, 1, 0), (2, 1, 1, 0), (2, 2, 1, 1), (3, 2, 2, 0), (2, 1, 2, 2), (3, 3, 1, 0), (2, 0, 1, 0)]
  if tier == 'quick':
    return quick
  out = []
  for r in (1, 2, 3, 4):
    for f in (0, 1, 2, 3):
      for k in (1, 2):
        for e in (0, 1, 2):
          out.append((r, f, k, e))
  return out


def _scenario_disk(cfg, crashes, cut):
  os.environ['C09_CFG'] = ','.join(map(str, cfg))
  sys.path.insert(0, xh.HARNESS_DIR)
  for m in ('c09_h',):
    sys.modules.pop(m, None)
  import c09_h
  import fs_model
  return c09_h.scenario(fs_model.DiskFS, crashes, cut)


def replay(data):
  a = ast.literal_eval(data['args'])
  v = _scenario_disk(tuple(a['cfg']), a['crashes'], a['cut'])
  return bool(v), (v[0] if v else 'resumed run equals the uninterrupted run on a real temporary directory')


def classify(msg):
  if 'not loadable' in msg:
    return 'torn-checkpoint-visible'
  if 'round_num' in msg:
    return 'restart-after-last-round'
  if 'checkpoint files remain' in msg:
    return 'too-many-checkpoints'
  if 'final evaluation' in msg:
    return 'final-eval-output'
  if 'final state' in msg:
    return 'final-state'
  return 'other'


def check(run):
  timeout = 600 if run.tier == 'quick' else 1800
  cfgs = configs(run.tier)
  run.functions += ['training.federated_experiment.run_federated_experiment', 'training.checkpoint.save_checkpoint/load_latest_checkpoint/_get_checkpoint_paths',
                    'core.serialization.save_state/load_state']
  run.trusted += ['CrossHair "Confirmed over all paths"', 'fs model: dict file system with crash injection at every effect; a crashing write leaves a prefix; '
                  'rename is atomic; earlier effects are durable', 'pickle runs for real on concrete states',
                  'algorithm = free "trace" algorithm (state = sampled ids per applied round), sampler = round-indexed model sampler (C13 covers the real one)']
  run.assumptions += ['real file-system reordering / fsync is outside the claim', 'TensorBoard Logger, absl logging, time are no-ops',
                      'crash points: before every file-system effect and before every algorithm/eval step']
  run.bounds = {'num_rounds': '1..3 (4)', 'checkpoint_frequency': '0..3', 'num_checkpoints_to_keep': '1..2', 'eval_frequency': '0..2',
                'crashes': '1 and 2 successive crashes, then completion', 'partial write': '0..3 bytes of the interrupted write', 'configs': len(cfgs)}
  jobs, meta = [], []
  for c in cfgs:
    env = {'C09_CFG': ','.join(map(str, c))}
    jobs.append((HARNESS, 'resume1', timeout, env))
    meta.append((c, 'resume1'))
    jobs.append((HARNESS, 'resume2', timeout, env))
    meta.append((c, 'resume2'))
  jobs.append((HARNESS, 'resume_reach', timeout, {'C09_CFG': '2,1,1,0'}))
  res = xh.run_many(jobs, workers=14)
  for (c, func), r in zip(meta, res[:-1]):
    name = '%s[rounds=%d,ckpt_freq=%d,keep=%d,eval_freq=%d]' % ((func,) + c)
    if r['status'] == 'confirmed':
      run.ob(name, 'confirmed', r['secs'], detail={'crosshair': 'Confirmed over all paths', 'symbolic': 'crash indices, partial-write length'})
    elif r['status'] == 'refuted':
      run.ob(name, 'sat', r['secs'], detail=r['message'][:300])
      try:
        a = xh.parse_args(r['args'], names=['c1', 'cut'] if func == 'resume1' else ['c1', 'c2', 'cut'])
      except Exception:   # pylint: disable=broad-except
        run.fail('%s: cannot parse %r' % (name, r['args']))
        continue
      crashes = [a['c1']] + ([a['c2']] if func == 'resume2' else [])
      v = _scenario_disk(c, crashes, a['cut'])
      args = {'cfg': list(c), 'crashes': crashes, 'cut': a['cut']}
      what = v[0] if v else 'not reproduced on a real temporary directory'
      run.violation(classify(what) if v else 'unreproduced:' + name, 'config %s, crash at effect(s) %s, %d byte(s) of the interrupted write kept: %s' % (c, crashes, a['cut'], what),
                    {'func': func, 'args': repr(args)}, bool(v))
    else:
      run.ob(name, 'unknown', r['secs'], detail=r['message'][:300])
  run.witness('c09:reach', 'reach', res[-1]['status'] == 'refuted', res[-1]['message'][:200])
