"""C08: all federated-dataset implementations expose the same mapping (Engine X)."""
import ast
import os
import sys
import tempfile

from .. import xh

LEVEL = 'model_checking'
HARNESS = 'c08_h.py'
IMPL = ['in-memory', 'sqlite', 'subset(in-memory)', 'subset(sqlite)']


def _mod(nids):
  os.environ['C08_NIDS'] = str(nids)
  sys.path.insert(0, xh.HARNESS_DIR)
  sys.modules.pop('c08_h', None)
  import c08_h
  import adapters
  return c08_h, adapters


ID_BYTES = {10: b'a', 20: b'a\x00', 30: b'ab'}     # same order as 10 < 20 < 30; a trailing zero byte and a prefix relation


def idmap(i):
  """int representative -> bytes id / probe with the same order type."""
  if i in ID_BYTES:
    return ID_BYTES[i]
  if i < 10:
    return b'A'           # below every id
  if i < 30:
    return b'a\x01'       # between b'a\x00' and b'ab' (no bytes value lies strictly between b'a' and b'a\x00')
  return b'b'             # above every id


def bound(v):
  """slice bound with the same order type relative to the ids."""
  if v is None:
    return None
  if v <= 0:
    return b''            # the least bytes value, and the only falsy one (as 0 among the non-negative ints)
  if v < 10:
    return b'A'
  if v == 10:
    return b'a'
  if v <= 20:
    return b'a\x00'       # a bound in (10, 20] selects the same ids as 20 itself
  if v < 30:
    return b'a\x01'
  if v == 30:
    return b'ab'
  return b'b'


def real_sqlite_factory(tmpdir):
  from fedjax.core import sqlite_federated_data
  counter = [0]

  def make(data):
    counter[0] += 1
    path = os.path.join(tmpdir, 'fd%d.sqlite' % counter[0])
    with sqlite_federated_data.SQLiteFederatedDataBuilder(path) as b:
      b.add_many(sorted(data.items()))
    return sqlite_federated_data.SQLiteFederatedData.new(path)
  return make


def replay_fn(cfg, func, a, nids):
  h, adapters = _mod(nids)
  st, A = adapters.load_real_stack(), adapters.RealNP
  from fedjax.core import sqlite_federated_data as sqm
  impl, k1, k2, bits, probe = cfg
  tmp = tempfile.mkdtemp(prefix='vf_c08_')
  try:
    if func == 'views2':
      sub = [bool(bits & 1), bool(bits & 2), bool(bits & 4)][:len(h.IDS)]
      ops = h.mk_ops(0, a['s1'], a['e1'], 0, a['s2'], a['e2'])
      pr = probe
    else:
      sub = [a['b0'], a['b1'], a['b2']]
      ops = h.mk_ops(k1, a['s'], a['e'], k2, a['s'], a['e'])
      pr = a['probe']
    # the probe id keeps its order type w.r.t. the ids
    probe_id = pr if pr in h.IDS else (5 if pr < 10 else (25 if pr < 30 else 35))
    r = h.scenario(st, sqm, A, idmap, bound, impl, sub, ops, probe_id, real_sqlite=real_sqlite_factory(tmp), light=(func == 'views2'))
  finally:
    import shutil
    shutil.rmtree(tmp, ignore_errors=True)
  return (r is not None), (r or 'real implementations agree with the reference on bytes ids a, a\\x00, ab')


def replay(data):
  a = ast.literal_eval(data['args'])
  return replay_fn(tuple(a['cfg']), data['func'], a, a.get('nids', 3))


def configs(tier):
  v1, v2 = [], []
  pats = {0: [(0, 3), (1, 2), (0, 1)], 1: [(0, 3), (0, 1), (2, 0)], 2: [(0, 3), (0, 2)], 3: [(0, 3), (1, 0), (0, 1)]}
  if tier == 'thorough':
    pats = {i: [(0, 3), (0, 1), (0, 2), (1, 0), (2, 0), (1, 2), (2, 1)] for i in range(4)}
  for impl, ps in pats.items():
    for k1, k2 in ps:
      v1.append((impl, k1, k2, 7, 20))
  for impl in range(4):
    for bits, probe in ([(3, 20)] if tier == 'quick' else [(3, 20), (1, 10), (2, 5)]):
      v2.append((impl, 0, 0, bits, probe))
  return v1, v2


def classify(msg):
  for k, tag in (('IndexError', 'empty-view-indexerror'), ('client_ids', 'client-ids'), ('num_clients', 'num-clients'), ('client_sizes', 'client-sizes'),
                 ('silently shortened', 'bulk-get-skips-outside-ids'), ('get_clients', 'get-clients'), ('get_client', 'get-client'), ('client_size', 'client-size'),
                 ('shuffled', 'shuffled-pass'), ('base changed', 'base-mutated'), ('clients()', 'clients-content'), ('batches', 'batch-preprocessing')):
    if k in msg:
      return tag
  return 'other'


def check(run):
  timeout = 900 if run.tier == 'quick' else 2400
  run.functions += ['federated_data.SubsetFederatedData / intersect_slice_ranges / ClientPreprocessor', 'in_memory_federated_data.InMemoryFederatedData',
                    'sqlite_federated_data.SQLiteFederatedData (slice, _range_where, point lookups, iteration)', 'client_datasets.BatchPreprocessor']
  run.trusted += ['CrossHair "Confirmed over all paths"', 'np_lite', 'SQL model: evaluator for the statement shapes fedjax issues, WHERE clause interpreted as written '
                  '(validated against sqlite3 incl. ids a, a\\x00, ab each run)', 'client ids = order-type representatives 10 < 20 < 30 (the code only compares, hashes, sorts ids)']
  run.assumptions += ['zlib/msgpack payload encoding is outside (C16)', 'byte-level id ordering inside SQLite/numpy is covered only by the stub validation and by replays on real bytes ids',
                      'shuffled iteration is not exercised on an empty view (the generator never yields there)']
  sys.path.insert(0, xh.HARNESS_DIR)
  import sql_model
  import np_lite
  probs = sql_model.validate() + np_lite.validate()
  run.witness('models-vs-real-libraries', 'translation', not probs, '; '.join(probs))
  # the oracle must accept the real implementations on a literal scenario
  ok = not replay_fn((1, 0, 1, 7, 20), 'views1', {'b0': True, 'b1': True, 'b2': True, 's': 10, 'e': 30, 'probe': 20}, 3)[0] and \
      not replay_fn((3, 0, 0, 7, 20), 'views2', {'s1': None, 'e1': 30, 's2': 15, 'e2': None}, 3)[0]
  run.witness('oracle-accepts-real-code-on-test-inputs', 'translation', ok)
  v1, v2 = configs(run.tier)
  run.bounds = {'clients': 3, 'view operations': '<=2 (slice / preprocess_client / preprocess_batch), nested slices on 2 clients',
                'slice bounds': 'symbolic Optional[int] >= 0 (all order types incl. None, the empty bytes value (0), equal to an id, start > stop)', 'subset': 'symbolic membership bits',
                'configurations': len(v1) + len(v2)}
  jobs, meta = [], []
  for c in v1:
    jobs.append((HARNESS, 'views1', timeout, {'C08_CFG': ','.join(map(str, c)), 'C08_NIDS': '3'}))
    meta.append((c, 'views1', 3))
  for c in v2:
    jobs.append((HARNESS, 'views2', timeout, {'C08_CFG': ','.join(map(str, c)), 'C08_NIDS': '2'}))
    meta.append((c, 'views2', 2))
  jobs.append((HARNESS, 'views_reach', timeout, {'C08_CFG': '0,0,3,7,20', 'C08_NIDS': '3'}))
  res = xh.run_many(jobs, workers=14)
  for (c, func, nids), r in zip(meta, res[:-1]):
    name = '%s[%s; ops=%s,%s]' % (func, IMPL[c[0]], ['slice', 'preprocess_client', 'preprocess_batch', '-'][c[1]], ['slice', 'preprocess_client', 'preprocess_batch', '-'][c[2]])
    if r['status'] == 'confirmed':
      run.ob(name, 'confirmed', r['secs'], detail={'crosshair': 'Confirmed over all paths'})
    elif r['status'] == 'refuted':
      run.ob(name, 'sat', r['secs'], detail=r['message'][:300])
      names = ['b0', 'b1', 'b2', 's', 'e', 'probe'] if func == 'views1' else ['s1', 'e1', 's2', 'e2']
      try:
        a = xh.parse_args(r['args'], names=names)
      except Exception:   # pylint: disable=broad-except
        run.fail('%s: cannot parse %r' % (name, r['args']))
        continue
      ok, msg = replay_fn(c, func, a, nids)
      a.update(cfg=list(c), nids=nids)
      run.violation(classify(msg) if ok else 'unreproduced:' + name, '%s with %s: %s' % (name, {k: v for k, v in a.items() if k not in ('cfg', 'nids')}, msg),
                    {'func': func, 'args': repr(a)}, ok)
    else:
      run.ob(name, 'unknown', r['secs'], detail=r['message'][:300])
  run.witness('c08:reach', 'reach', res[-1]['status'] == 'refuted', res[-1]['message'][:200])
