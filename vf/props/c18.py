"""C18: Walsh-Hadamard transform is exact; structured rotation is norm preserving and invertible (Engine J)."""
import json
import math

import numpy as np
import z3

import jax
import jax.numpy as jnp

from .. import symjx as sj
from .. import jh
from .c01 import replay_subprocess

LEVEL = 'model_checking'


def _wh():
  from fedjax.aggregators import walsh_hadamard
  return walsh_hadamard


def sylvester(n):
  h = [[1]]
  while len(h) < n:
    h = [r + r for r in h] + [r + [-v for v in r] for r in h]
  return h


def run_wht(run, n, small_n, timeout):
  wh = _wh()
  x = sj.symarr('x', (n,))
  nm = 'wht[n=%d,small_n=%s]' % (n, small_n)
  h = jh.Harness(run, nm, timeout)
  H = sylvester(n)
  if small_n is None:
    code = lambda v: wh.walsh_hadamard_transform(v)
  else:
    code = lambda v: wh.walsh_hadamard_transform(v, small_n)

  def ref(v):
    return jnp.stack([sum(H[i][j] * v[j] for j in range(n)) for i in range(n)]) if n > 1 else v * 1.0
  try:
    cexs = h.equiv(code, ref, (x,))
  except Exception as e:   # pylint: disable=broad-except
    if jh.engine_fault(e):
      raise
    run.ob(nm + ':raises', 'sat', detail=repr(e))
    cexs = [{'model': None}]
  # concrete run of the REAL jitted function on the same configuration (engine validation doubles as
  # a check that the public entry point accepts this configuration at all)
  xs = np.arange(1, n + 1, dtype=np.float32)
  err = None
  try:
    got = np.asarray(code(jnp.asarray(xs)))
    exp = np.asarray(H, dtype=np.float64) @ xs
    if not np.allclose(got, exp, rtol=1e-4, atol=1e-4):
      err = 'real call returns %s, H x = %s' % (got[:8], exp[:8])
  except Exception as e:   # pylint: disable=broad-except
    err = 'real (jitted) call raises %s: %s' % (type(e).__name__, str(e).split('\n')[0][:160])
  run.ob(nm + ':real-call', 'sat' if err else 'unsat', detail=err, nontrivial=False)
  if cexs or err:
    data = {'kind': 'wht', 'n': n, 'small_n': small_n,
            'x': (np.asarray(jh.concrete_args(cexs[0]['model'], (x,))[0]).tolist()
                  if cexs and cexs[0].get('model') is not None else xs.tolist())}
    ok, msg = replay_subprocess('C18', data)
    key = 'wht:explicit-small_n' if (small_n is not None and err and 'raises' in err) else 'wht:n=%d,small_n=%s' % (n, small_n)
    run.violation(key, 'walsh_hadamard_transform(len %d, small_n=%s): %s' % (n, small_n, msg), data, ok)


def rot_trace(shape, ctx, xname='x', keyname='k'):
  wh = _wh()
  x = sj.symarr(xname, shape)
  key = sj.rawkeyarr(keyname)
  sym = (x, key)
  out, pcs, _, _ = sj.run_symbolic(lambda v, k: wh.structured_rotation(v, k), jh.abstract_of(sym), sym, ctx=ctx)
  rot, oshape = out
  return x, key, rot, oshape


def run_rotation(run, shape, timeout):
  wh = _wh()
  nm = 'rot[shape=%s]' % (shape,)
  h = jh.Harness(run, nm, timeout)
  ctx = sj.Ctx()
  x, key, rot, oshape = rot_trace(shape, ctx)
  oshape_c = np.asarray([int(v) for v in oshape.reshape(-1)], dtype=np.int32)
  size = int(np.prod(shape)) if shape else 1
  d = rot.shape[0]
  goals = [('padded-length', d == 2 ** math.ceil(math.log2(size)) if size > 0 else True),
           ('shape-recorded', list(oshape_c) == list(shape))]
  xs = [x[idx] for idx in np.ndindex(*shape)]
  norm_in = sum(v * v for v in xs)
  norm_out = sum(sj.zr(r) * sj.zr(r) for r in rot)
  goals.append(('norm-preserved', norm_out == norm_in))
  bad = h.prove_all('rotate', ctx, [], goals, abstract_noise=True)
  # inverse with the same key restores the input in its original shape
  symi = (rot_placeholder(d), key)
  ctx2 = ctx
  # the shape object is handed back exactly as the forward call returns it (same values AND dtype)
  shape_dtype = jax.eval_shape(lambda v, k: wh.structured_rotation(v, k)[1], jax.ShapeDtypeStruct(shape, np.float32),
                               jax.ShapeDtypeStruct((2,), np.uint32)).dtype
  try:
    inv, pcs, _, _ = sj.run_symbolic(lambda r, k: wh.inverse_structured_rotation(r, k, jnp.asarray(oshape_c, dtype=shape_dtype)),
                                     jh.abstract_of(symi), (rot, key), ctx=ctx2)
  except Exception as e:   # pylint: disable=broad-except
    if jh.engine_fault(e):
      raise
    run.ob(nm + ':inverse:raises', 'sat', detail=repr(e)[:300])
    data = {'kind': 'rot', 'shape': list(shape), 'x': np.ones(shape).tolist()}
    ok, msg = replay_subprocess('C18', data)
    run.violation('rot:%s:inverse-raises' % (shape,), 'inverse_structured_rotation with the shape returned by structured_rotation raises for input shape %s: %s' % (shape, msg), data, ok)
    return
  goals2 = [('inverse-shape', tuple(inv.shape) == tuple(shape))]
  if tuple(inv.shape) == tuple(shape):
    for idx in np.ndindex(*shape):
      goals2.append(('inverse-restores%s' % (list(idx),), sj.same(inv[idx], x[idx])))
  bad += h.prove_all('inverse', ctx2, [], goals2, abstract_noise=True)
  # a different key gives a different rotation (satisfiable: outputs can differ on equal inputs)
  ctx3 = sj.Ctx()
  xa, ka, ra, _ = rot_trace(shape, ctx3, 'x', 'k')
  xb, kb, rb, _ = rot_trace(shape, ctx3, 'x', 'k2')
  diff = z3.Or(*[sj.zr(ra[i]) != sj.zr(rb[i]) for i in range(d)])
  h.witness_sat('different-keys-differ', ctx3, [diff], kind='reach')
  xc, kc, rc, _ = rot_trace(shape, ctx3, 'x', 'k')
  same_key = h.prove_all('same-key-same-rotation', ctx3, [], [('coord%d' % i, sj.same(ra[i], rc[i])) for i in range(d)])
  bad += same_key
  for nmg, model in bad[:1]:
    xv = sj.model_array(model, x) if model is not None else np.ones(shape)
    data = {'kind': 'rot', 'shape': list(shape), 'x': np.asarray(xv).tolist()}
    ok, msg = replay_subprocess('C18', data)
    run.violation('rot:%s:%s' % (shape, nmg.split('[')[0]), 'structured rotation violates %s for shape %s: %s' % (nmg, shape, msg), data, ok)


def rot_placeholder(d):
  return sj.symarr('r', (d,))


def run_pytree(run, timeout):
  structures = [('dict', lambda: {'a': sj.symarr('pa', (3,)), 'b': sj.symarr('pb', (2, 1))}),
                ('bare-array', lambda: sj.symarr('pa', (3,))),
                ('list', lambda: [sj.symarr('pa', (2,)), sj.symarr('pb', (1,))]),
                ('nested', lambda: {'m': {'w': sj.symarr('pa', (2,))}, 'n': (sj.symarr('pb', ()),)})]
  for sname, mk in structures:
    run_pytree_one(run, sname, mk(), timeout)


def run_pytree_one(run, sname, params, timeout):
  wh = _wh()
  h = jh.Harness(run, 'pytree[%s]' % sname, timeout)
  ctx = sj.Ctx()
  key = sj.rawkeyarr('k')
  sym = (params, key)
  isl = lambda z: isinstance(z, np.ndarray)
  try:
    out, _, _, _ = sj.run_symbolic(lambda p, k: wh.structured_rotation_pytree(p, k), jh.abstract_of(sym), sym, ctx=ctx)
    rot, shapes = out
    shapes_c = jax.tree_util.tree_map(lambda s: np.asarray([int(v) for v in s.reshape(-1)], np.int32), shapes, is_leaf=isl)
    inv, _, _, _ = sj.run_symbolic(
        lambda r, k: wh.inverse_structured_rotation_pytree(r, k, jax.tree_util.tree_map(jnp.asarray, shapes_c)),
        jh.abstract_of((rot_like(rot), key)), (rot, key), ctx=ctx)
  except Exception as e:   # pylint: disable=broad-except
    if jh.engine_fault(e):
      raise
    run.ob('pytree[%s]:raises' % sname, 'sat', detail=repr(e)[:200])
    data = {'kind': 'pytree', 'structure': sname, 'leaves': None}
    ok, msg = replay_subprocess('C18', data)
    run.violation('pytree:%s:raises' % sname, 'structured_rotation_pytree on a %s tree: %s' % (sname, msg), data, ok)
    return
  goals = []
  lp = jh.flat_with_paths(params)
  li = jh.flat_with_paths(inv)
  lr = jh.flat_with_paths(rot)
  if [p for p, _ in lp] != [p for p, _ in li]:
    goals.append(('tree-structure', False))
  else:
    for (name, pl), (_, il), (_, rl) in zip(lp, li, lr):
      goals.append(('leaf%s-shape' % name, tuple(il.shape) == tuple(pl.shape)))
      if tuple(il.shape) == tuple(pl.shape):
        for idx in np.ndindex(*pl.shape):
          goals.append(('leaf%s%s' % (name, list(idx)), sj.same(il[idx], pl[idx])))
      n_in = sum([pl[idx] * pl[idx] for idx in np.ndindex(*pl.shape)])
      n_out = sum([sj.zr(r) * sj.zr(r) for r in rl.reshape(-1)])
      goals.append(('leaf%s-norm' % name, n_out == n_in))
  bad = h.prove_all('roundtrip', ctx, [], goals, abstract_noise=True)
  if sname == 'dict':
    # leaves use different keys: rotating equal leaves can give different results
    ctx2 = sj.Ctx()
    p2 = {'a': sj.symarr('q', (2,)), 'b': sj.symarr('q', (2,))}
    out2, _, _, _ = sj.run_symbolic(lambda p, k: wh.structured_rotation_pytree(p, k), jh.abstract_of((p2, key)), (p2, key), ctx=ctx2)
    h.witness_sat('leaves-use-different-keys', ctx2, [z3.Or(*[sj.zr(out2[0]['a'][i]) != sj.zr(out2[0]['b'][i]) for i in range(2)])])
  for nmg, model in bad[:1]:
    leaves = [sj.model_array(model, l).tolist() if model is not None else np.ones(l.shape).tolist() for _, l in lp]
    data = {'kind': 'pytree', 'structure': sname, 'leaves': leaves}
    ok, msg = replay_subprocess('C18', data)
    run.violation('pytree:%s:%s' % (sname, nmg.split('[')[0]), 'structured_rotation_pytree (%s tree) violates %s: %s' % (sname, nmg, msg), data, ok)


def concrete_tree(sname, leaves):
  mk = lambda i, shape: jnp.asarray(np.asarray(leaves[i], dtype=np.float64)).reshape(shape) if leaves else jnp.ones(shape)
  if sname == 'dict':
    return {'a': mk(0, (3,)), 'b': mk(1, (2, 1))}
  if sname == 'bare-array':
    return mk(0, (3,))
  if sname == 'list':
    return [mk(0, (2,)), mk(1, (1,))]
  return {'m': {'w': mk(0, (2,))}, 'n': (mk(1, ()),)}


def rot_like(rot):
  return jax.tree_util.tree_map(lambda a: sj.symarr('r', a.shape), rot, is_leaf=lambda z: isinstance(z, np.ndarray))


def replay(data):
  if data.get('kind') == 'shape_sweep':
    silent = type('R', (), {'ob': lambda self, *a, **k: None, 'violation': lambda self, *a, **k: setattr(self, 'v', a)})()
    shape_sweep(silent)
    return hasattr(silent, 'v'), (silent.v[1] if hasattr(silent, 'v') else 'every valid (length, block) pair is accepted')
  if data.get('kind') == 'donation':
    problems, concrete = donation_check()
    return bool(concrete), '; '.join(concrete + problems) or 'arrays stay valid'
  wh = _wh()
  if data['kind'] == 'wht':
    n, small_n = data['n'], data['small_n']
    x = jnp.asarray(np.asarray(data['x'], dtype=np.float64))
    try:
      got = np.asarray(wh.walsh_hadamard_transform(x) if small_n is None else wh.walsh_hadamard_transform(x, small_n))
    except Exception as e:   # pylint: disable=broad-except
      return True, 'real call raises %s: %s' % (type(e).__name__, str(e).split('\n')[0][:200])
    exp = np.asarray(sylvester(n), dtype=np.float64) @ np.asarray(x)
    d = float(np.max(np.abs(got - exp)))
    return d > 1e-6 * (1 + float(np.max(np.abs(exp)))), 'got %s expected %s' % (got[:8], exp[:8])
  last = (False, 'no key tried')
  for seed in range(8):      # the property quantifies over keys: a violation under any key is a violation
    last = _replay_with_key(data, jax.random.PRNGKey(seed))
    if last[0]:
      return last[0], 'key PRNGKey(%d): %s' % (seed, last[1])
  return last


def _replay_with_key(data, key):
  wh = _wh()
  if data['kind'] == 'rot':
    x = jnp.asarray(np.asarray(data['x'], dtype=np.float64)).reshape(data['shape'])
    try:
      r, s = wh.structured_rotation(x, key)
      z = wh.inverse_structured_rotation(r, key, s)
    except Exception as e:   # pylint: disable=broad-except
      return True, 'real call raises %r' % (e,)
    msgs = []
    if abs(float(jnp.sum(r * r)) - float(jnp.sum(x * x))) > 1e-6 * (1 + float(jnp.sum(x * x))):
      msgs.append('norm %.6g -> %.6g' % (float(jnp.sum(x * x)), float(jnp.sum(r * r))))
    if z.shape != x.shape or float(jnp.max(jnp.abs(z - x))) > 1e-6 * (1 + float(jnp.max(jnp.abs(x)))):
      msgs.append('inverse gives %s for %s' % (np.asarray(z).tolist(), np.asarray(x).tolist()))
    return bool(msgs), '; '.join(msgs) or 'rotation round trip fine'
  p = concrete_tree(data['structure'], data['leaves'])
  try:
    r, s = wh.structured_rotation_pytree(p, key)
    z = wh.inverse_structured_rotation_pytree(r, key, s)
  except Exception as e:   # pylint: disable=broad-except
    return True, 'real call raises %r' % (e,)
  d, where = jh.max_discrepancy(z, p)
  return d > 1e-6, 'pytree round trip discrepancy %.3g %s' % (d, where)


def shape_sweep(run):
  """Abstract evaluation (jax.eval_shape: tracing only, no solver, no compilation) over the WHOLE size range of the statement:
  every (length 2^0..2^14, block size 2^1..2^8) whose factorisation needs at most 8 einsum axes (single-digit axis names) is
  accepted and returns a vector of the same length; the value-level equality with the Sylvester matrix is decided by the solver
  only up to the bound stated in `bounds`."""
  wh = _wh()
  bad = []
  n_ok = 0
  for a in range(0, 15):
    for b in range(1, 9):
      n, small = 2 ** a, 2 ** b
      ndims = -(-a // b) if a else 0
      try:
        out = jax.eval_shape(lambda v: wh.walsh_hadamard_transform(v, small_n=small), jax.ShapeDtypeStruct((n,), np.float32))
        if ndims > 8 or out.shape != (n,):
          bad.append('length %d, block %d: accepted with %d axes / output shape %s' % (n, small, ndims, out.shape))
        n_ok += 1
      except ValueError as e:
        if ndims <= 8:
          bad.append('length %d, block %d (a valid pair: %d axes) is rejected: %s' % (n, small, ndims, str(e)[:60]))
  run.ob('shape-sweep(lengths 2^0..2^14 x blocks 2^1..2^8)', 'sat' if bad else 'unsat', detail=bad[:3] or None, nontrivial=False)
  if bad:
    run.violation('wht:valid-pair-rejected', 'walsh_hadamard_transform: %s' % bad[0], {'kind': 'shape_sweep'}, True)
  return n_ok


def donation_check():
  """Caller-owned arrays stay valid (rotate, invert twice with different keys is a history inside the statement): IR dataflow
  on the jaxpr traced with jit enabled + concrete is_deleted()/value confirmation."""
  from .c07 import donation_scan
  wh = _wh()
  x = jnp.asarray([1.0, -2.0, 3.0, 0.5, 4.0])
  key = jax.random.PRNGKey(3)
  y, shp = wh.structured_rotation(x, key)
  problems = []
  t = {'a': x, 'b': jnp.asarray([[1.0, 2.0], [3.0, 4.0]])}
  ty, tshp = wh.structured_rotation_pytree(t, key)
  with jax.ensure_compile_time_eval():       # shape arithmetic on constants (jnp.prod(original_shape)) must stay concrete while tracing
    p1, _ = donation_scan(lambda v, k: wh.structured_rotation(v, k)[0], (x, key))
    p2, _ = donation_scan(lambda v, k: wh.inverse_structured_rotation(v, k, shp), (y, key))
    p3, _ = donation_scan(lambda v, k: wh.inverse_structured_rotation_pytree(v, k, tshp), (ty, key))
  problems = p1 + p2 + p3
  concrete = []
  y_copy, x_copy = np.asarray(y).copy(), np.asarray(x).copy()
  r1 = wh.inverse_structured_rotation(y, key, shp)
  try:
    r2 = wh.inverse_structured_rotation(y, jax.random.PRNGKey(4), shp)
    if y.is_deleted() or not np.array_equal(np.asarray(y), y_copy):
      concrete.append('the rotated array handed to inverse_structured_rotation was deleted / changed')
    if not np.allclose(np.asarray(r1), x_copy, atol=1e-5):
      concrete.append('inverse with the same key does not restore the input')
  except RuntimeError as e:
    concrete.append('second inverse on the same rotated array fails: %s' % str(e).splitlines()[0][:100])
  try:
    wh.inverse_structured_rotation_pytree(ty, key, tshp)
    wh.inverse_structured_rotation_pytree(ty, key, tshp)
    if x.is_deleted():
      concrete.append('input deleted')
  except RuntimeError as e:
    concrete.append('second pytree inverse on the same rotated tree fails: %s' % str(e).splitlines()[0][:100])
  return problems, concrete


def check(run):
  timeout = 20.0 if run.tier == 'quick' else 120.0
  run.functions += ['fedjax.aggregators.walsh_hadamard.walsh_hadamard_transform', 'structured_rotation',
                    'inverse_structured_rotation', 'structured_rotation_pytree', 'inverse_structured_rotation_pytree']
  run.trusted += ['z3 (incl. its algebraic numbers for 1/sqrt(d))', 'vf/symjx.py jaxpr interpreter',
                  'Rademacher signs = sign of (u < 1/2) for the uniform draw u named by (key term, position)']
  run.assumptions += ['floats read as reals; constants such as 1/sqrt(d) de-rounded to the algebraic number they round',
                      'lengths beyond the bound (2^9..2^14) use the same code path with more reshape factors: not claimed']
  if run.tier == 'quick':
    whts = [(1, None), (2, None), (4, None), (8, None), (16, None), (4, 2), (8, 2), (8, 4), (16, 4), (16, 2), (2, 2)]
    shapes = [(1,), (2,), (3,), (4,), (5,), (2, 3), (5, 1), ()]
  else:
    whts = [(2 ** a, None) for a in range(0, 9)] + [(2 ** a, 2 ** b) for a in range(1, 8) for b in range(1, 8) if b <= a + 1] + \
        [(256, 2), (256, 16), (256, 256)]
    shapes = [(1,), (2,), (3,), (4,), (5,), (6,), (7,), (8,), (9,), (2, 3), (5, 1), (3, 3), (), (2, 2, 2)]
  run.bounds = {'lengths': [w[0] for w in whts], 'block sizes': sorted({w[1] for w in whts if w[1]}), 'rotation shapes': [list(s) for s in shapes]}
  ok, worst = jh.validate_translation(lambda v, k: _wh().structured_rotation(v, k)[0],
                                      (jax.ShapeDtypeStruct((3,), np.float32), jax.ShapeDtypeStruct((2,), np.uint32)), run.seed)
  run.witness('translator-validation', 'translation', ok, 'worst %.2g' % worst)
  for n, small_n in whts:
    run_wht(run, n, small_n, timeout)
  for shape in shapes:
    run_rotation(run, shape, timeout)
  run_pytree(run, timeout)
  run.extra['shape_sweep_pairs_accepted'] = shape_sweep(run)
  problems, concrete = donation_check()
  run.ob('donation-dataflow(rotation / inverse / pytree inverse)', 'sat' if (problems or concrete) else 'unsat', detail=(problems + concrete)[:3] or None, nontrivial=True)
  if problems or concrete:
    run.violation('rotation:donates-caller-array', 'rotation / inverse rotation invalidates an array of the caller: %s' % '; '.join((concrete + problems)[:2]),
                  {'kind': 'donation'}, bool(concrete))
