"""C14: every built-in metric equals its definition on its whole domain (Engine J)."""
import json
import math
import time
from fractions import Fraction

import numpy as np
import z3

import jax
import jax.numpy as jnp

from .. import symjx as sj
from .. import jh
from . import metrics_common as mc
from .c01 import replay_subprocess

LEVEL = 'model_checking'


def check_metric(run, name, ctor, kind, info, C, T, timeout):
  h = jh.Harness(run, name, timeout)
  ctx = sj.Ctx()
  row = mc.sym_row(kind, C, T, '')
  for j in info.get('ninf_at', ()):        # a -inf score at these classes
    row[0][j] = sj.NINF
  shown = name + ('[-inf@%s]' % (info['ninf_at'],) if info.get('ninf_at') else '')
  h = jh.Harness(run, shown, timeout)
  assum = mc.row_domain(*row, C)
  if 'target_is' in info:
    assum = assum + [row[1][()] == info['target_is']]
  try:
    metric = ctor()
    stat = mc.eval_example(metric, row, ctx)
  except Exception as e:   # pylint: disable=broad-except
    if jh.engine_fault(e):
      run.ob(name + ':trace', 'error', detail=repr(e)[:300])
      return
    run.ob(name + ':raises', 'sat', detail=repr(e)[:300])
    run.violation('raises:' + name.split('(')[0], '%s raises %r' % (name, e), {'name': name, 'C': C, 'T': T, 'raises': True}, True)
    return
  a, w = mc.stat_fields(stat)
  ra, rw = mc.reference_stat(name, info, kind, row, C, T, ctx)
  goals = []
  if a.shape != ra.shape:
    goals.append(('accum-shape', False))
  else:
    for idx in np.ndindex(*a.shape):
      goals.append(('accum%s' % (list(idx),), sj.same(mc.as_real(a[idx]), mc.as_real(ra[idx]))))
      if not info.get('ninf_at'):
        goals.append(('accum-finite%s' % (list(idx),), sj.finite(mc.as_real(a[idx]))))
  if (w is None) != (rw is None):
    goals.append(('stat-kind', False))
  elif w is not None:
    for idx in np.ndindex(*w.shape):
      goals.append(('weight%s' % (list(idx),), sj.same(mc.as_real(w[idx]), mc.as_real(rw[idx]))))
  # result() of the real Stat vs reference result
  res_sym = (a,) if w is None else (a, w)
  try:
    res, _, _, _ = sj.run_symbolic(lambda *f: type(stat)(*f).result(), jh.abstract_of(tuple(_float_like(x) for x in res_sym)),
                                   tuple(_real_arr(x) for x in res_sym), ctx=ctx)
    rres = mc.result_of(ra, rw)
    for idx in np.ndindex(*res.shape):
      goals.append(('result%s' % (list(idx),), sj.same(res[idx], rres[idx])))
      if not info.get('ninf_at'):
        goals.append(('result-finite%s' % (list(idx),), sj.finite(res[idx])))
  except Exception as e:   # pylint: disable=broad-except
    if jh.engine_fault(e):
      raise
    goals.append(('result-raises', False))
  bad = h.prove_all('def', ctx, assum, goals)
  h.witness_sat('reach', ctx, assum)
  if bad:
    nmg, model = bad[0]
    pred, tgt, dom = row
    if model is not None:
      data = {'name': name, 'C': C, 'T': T, 'kind': kind, 'info': {k: v for k, v in info.items() if k in ('ninf_at', 'target_is')},
              'pred': [(v if np.isfinite(v) else None) for v in np.asarray(sj.model_array(model, pred)).reshape(-1)] if info.get('ninf_at') else sj.model_array(model, pred).tolist(),
              'tgt': sj.model_array(model, tgt, np.int64).tolist(), 'dom': int(sj.model_value(model, dom[()]))}
    else:
      data = {'name': name, 'C': C, 'T': T, 'kind': kind, 'pred': np.zeros(pred.shape).tolist(),
              'tgt': np.ones(tgt.shape, np.int64).tolist(), 'dom': 0}
    ok, msg = replay_subprocess('C14', data)
    run.violation('%s:%s' % (_class_key(name, info), nmg.split('[')[0]), '%s differs from its definition (%s): %s' % (name, nmg, msg), data, ok)


def _class_key(name, info):
  base = name.split('(')[0]
  if base in ('TopKAccuracy', 'SequenceTokenTopKAccuracy') and info.get('k', 1) < 0:
    return base + ':negative-k'
  if base == 'SequenceTokenOOVRate' and len(info.get('oov', ())) > 1:
    return base + ':multiple-oov-values'
  return name


def _float_like(x):
  return np.vectorize(lambda e: z3.Real('x'), otypes=[object])(x) if x.size else x


def _real_arr(x):
  out = np.empty(x.shape, dtype=object)
  for idx in np.ndindex(*x.shape):
    out[idx] = mc.as_real(x[idx])
  return out


def find_metric(name, C, T):
  for tier in ('quick', 'thorough'):
    for nm, ctor, kind, info in mc.metric_grid(C, T, tier):
      if nm == name:
        return ctor, kind, info
  raise KeyError(name)


def replay(data):
  name, C, T, kind = data['name'], data['C'], data['T'], data.get('kind', 'cls')
  ctor, kind, info = find_metric(name, C, T)
  metric = ctor()
  if data.get('raises'):
    return True, 'constructor/evaluate raises'
  pred = np.asarray([(-np.inf if v is None else v) for v in data['pred']], dtype=np.float64).reshape((C,) if kind == 'cls' else (T, C)) \
      if data.get('info', {}).get('ninf_at') else np.asarray(data['pred'], dtype=np.float64)
  tgt = np.asarray(data['tgt'], dtype=np.int32)
  if data.get('info'):
    info = dict(info, **data['info'])
  try:
    stat = metric.evaluate_example({'y': jnp.asarray(tgt), 'domain_id': jnp.asarray(data['dom'], jnp.int32)}, jnp.asarray(pred))
  except Exception as e:   # pylint: disable=broad-except
    return True, 'real evaluate_example raises %r' % (e,)
  a, w = mc.stat_fields(stat)
  ctx = sj.Ctx(numeric=True)
  sj.NUMERIC_MODE[0] = True
  prow = np.empty(pred.shape, dtype=object)
  for idx in np.ndindex(*pred.shape):
    prow[idx] = Fraction(float(pred[idx])) if np.isfinite(pred[idx]) else (sj.NINF if pred[idx] < 0 else sj.PINF)
  trow = np.empty(tgt.shape, dtype=object)
  for idx in np.ndindex(*tgt.shape):
    trow[idx] = int(tgt[idx])
  drow = np.empty((), dtype=object)
  drow[()] = int(data['dom'])
  ra, rw = mc.reference_stat(name, info, kind, (prow, trow, drow), C, T, ctx)

  def fl(e):
    e = mc.as_real(e)
    if isinstance(e, sj.XR):
      return float('nan') if e.nan is True else (float('inf') if e.pinf is True else float('-inf'))
    return float(e)
  msgs = []
  for label, got, exp in (('accum', a, ra), ('weight', w, rw)):
    if got is None:
      continue
    got = np.asarray(got, dtype=np.float64)
    if got.shape != exp.shape:
      msgs.append('%s shape %s vs %s' % (label, got.shape, exp.shape))
      continue
    for idx in np.ndindex(*got.shape):
      e = fl(exp[idx])
      g = float(got[idx])
      if (math.isnan(g) != math.isnan(e)) or (not math.isnan(g) and abs(g - e) > 1e-6 * (1 + abs(e))):
        msgs.append('%s%s = %r, definition gives %r' % (label, list(idx), g, e))
  res = np.asarray(stat.result(), dtype=np.float64)
  rres = mc.result_of(ra, rw)
  for idx in np.ndindex(*res.shape):
    e, g = fl(rres[idx]), float(res[idx])
    if (math.isnan(g) != math.isnan(e)) or (not math.isnan(g) and abs(g - e) > 1e-6 * (1 + abs(e))):
      msgs.append('result%s = %r, definition gives %r' % (list(idx), g, e))
  return bool(msgs), '%s on pred=%s target=%s: %s' % (name, pred.tolist(), tgt.tolist(), '; '.join(msgs[:3]) or 'agrees')


def check(run):
  sj.RICH_TRANS[0] = True      # exp/log carry their elementary bounds, so that counterexamples involving them replay
  tier = run.tier
  timeout = 60.0 if tier == 'quick' else 240.0
  C, T = (3, 2) if tier == 'quick' else (4, 3)
  grid = mc.metric_grid(C, T, tier)
  run.functions += ['fedjax.core.metrics.<every Metric class>.evaluate_example / zero', 'MeanStat/SumStat.new/result',
                    'get_target_weight', 'unreduced_cross_entropy_loss']
  run.trusted += ['z3', 'vf/symjx.py interpreter (sort as a stable compare-exchange network, argmax as first maximum)',
                  'exp/log as uninterpreted functions (reference in the same shifted log-sum-exp form)']
  run.assumptions += ['targets in [0, classes); scores arbitrary reals (ties allowed), logit masks with -inf entries',
                      'cross entropy reference is -( (p_t-c) - log sum exp(p_j-c) ) with c=max p; its equality with '
                      '-log softmax is a textbook identity outside the solver']
  run.bounds = {'classes': C, 'sequence length': T, 'metric instances': len(grid),
                'k': sorted({i['k'] for _, _, _, i in grid if 'k' in i})}
  ok, worst = jh.validate_translation(
      lambda p, t: mc.M().SequenceTokenTopKAccuracy(k=2).evaluate_example({'y': t}, p).accum,
      (jax.ShapeDtypeStruct((T, C), np.float32), jax.ShapeDtypeStruct((T,), np.int32)), run.seed)
  run.witness('translator-validation(topk)', 'translation', ok, 'worst %.2g' % worst)
  ok, worst = jh.validate_translation(
      lambda p, t: mc.M().CrossEntropyLoss().evaluate_example({'y': t}, p).accum,
      (jax.ShapeDtypeStruct((C,), np.float32), jax.ShapeDtypeStruct((), np.int32)), run.seed)
  run.witness('translator-validation(xent)', 'translation', ok, 'worst %.2g' % worst)
  for name, ctor, kind, info in grid:
    check_metric(run, name, ctor, kind, info, C, T, timeout)
