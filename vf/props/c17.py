"""C17: algorithm-specific invariants along training histories, as inductive steps from arbitrary valid states (Engine J)."""
import itertools
import json
from fractions import Fraction

import numpy as np
import z3

import jax
import jax.numpy as jnp

from .. import symjx as sj
from .. import jh
from .. import ufs
from .c01 import replay_subprocess, offsets, D
from . import metrics_common as mc

LEVEL = 'model_checking'


def _fx():
  import fedjax
  from fedjax.core import client_datasets, optimizers, models, tree_util
  from fedjax.algorithms import agnostic_fed_avg, apfl, hyp_cluster, mime_lite
  return dict(fedjax=fedjax, cds=client_datasets, optimizers=optimizers, models=models, tree_util=tree_util,
              agnostic=agnostic_fed_avg, apfl=apfl, hyp_cluster=hyp_cluster, mime_lite=mime_lite)


def lin_pel(X, y):
  def pel(params, batch, rng):
    idx = batch['idx']
    return (X[idx] @ params['w'] + params['b'] - y[idx]) ** 2
  return pel


def hp(batch=2, **kw):
  return _fx()['cds'].ShuffleRepeatBatchHParams(batch_size=batch, num_epochs=kw.get('epochs', 1), num_steps=kw.get('steps'), seed=0)


def datasets(sizes, extra=None):
  cds = _fx()['cds']
  out = []
  for o, n in zip(offsets(sizes), sizes):
    feats = {'idx': np.arange(o, o + n, dtype=np.int32)}
    out.append(cds.ClientDataset(feats))
  return out


def ids(sizes):
  return [b'c%02d' % i for i in range(len(sizes))]


# =====================================================================================================
# (a) agnostic federated averaging: simplex + sliding window
# =====================================================================================================
def agnostic_code(cfg):
  F = _fx()
  sizes, ND, W = cfg['sizes'], cfg['domains'], cfg['window']

  def fn(w, b, X, y, Dm, dw, win, keys):
    pel0 = lin_pel(X, y)
    o = F['optimizers']
    alg = F['agnostic'].agnostic_federated_averaging(
        per_example_loss=pel0, client_optimizer=o.sgd(0.5), server_optimizer=o.sgd(1.0),
        client_batch_hparams=hp(2), domain_batch_hparams=F['cds'].PaddedBatchHParams(batch_size=cfg.get('pad', 2)),
        init_domain_weights=[1.0 / ND] * ND, domain_learning_rate=0.5, domain_algorithm='eg', domain_window_size=W)
    st0 = alg.init({'w': w, 'b': b})
    state = F['agnostic'].ServerState(params=st0.params, opt_state=st0.opt_state, domain_weights=dw,
                                      domain_window=[win[i] for i in range(W)])
    cds = F['cds']
    clients = []
    for i, (o_, n) in enumerate(zip(offsets(sizes), sizes)):
      idx = np.arange(o_, o_ + n, dtype=np.int32)
      clients.append((ids(sizes)[i], _TracedDataset(idx, Dm), keys[i]))
    new, diag = alg.apply(state, clients)
    return {'weights': new.domain_weights, 'window': jnp.stack(new.domain_window), 'window_len': len(new.domain_window),
            'params': new.params}
  return fn


class _TracedDataset:
  """A ClientDataset whose 'domain_id' feature is a traced array looked up by the concrete 'idx' feature.
  Uses the REAL batching views for idx; domain ids are attached per batch."""

  def __init__(self, idx, Dm):
    cds = _fx()['cds']
    self._ds = cds.ClientDataset({'idx': idx})
    self._Dm = Dm
    self._n = len(idx)

  def __len__(self):
    return self._n

  def _attach(self, batches, N):
    for bt in batches:
      out = dict(bt)
      mask = np.asarray(bt.get('__mask__', np.ones(len(bt['idx']), bool)))
      idx = np.asarray(bt['idx'])
      out['domain_id'] = self._Dm[np.where(mask, idx, N)]
      yield out

  def padded_batch(self, hparams=None, **kw):
    N = self._Dm.shape[0] - 1     # last row = arbitrary content for padded rows
    return list(self._attach(self._ds.padded_batch(hparams, **kw), N))

  def shuffle_repeat_batch(self, hparams=None, **kw):
    N = self._Dm.shape[0] - 1
    return list(self._attach(self._ds.shuffle_repeat_batch(hparams, **kw), N))


def run_agnostic(run, cfg, timeout):
  nm = 'agnostic[%s]' % ','.join('%s=%s' % (k, cfg[k]) for k in sorted(cfg))
  h = jh.Harness(run, nm, timeout)
  sizes, ND, W = cfg['sizes'], cfg['domains'], cfg['window']
  N = sum(sizes)
  w, b = sj.symarr('w', (D,)), sj.symarr('b', ())
  X, y = sj.symarr('X', (N + 1, D)), sj.symarr('y', (N + 1,))
  Dm = sj.symarr('Dm', (N + 1,), 'i')
  dw = sj.symarr('dw', (ND,))
  win = sj.symarr('win', (W, ND))
  keys = sj.rawkeyarr('k', (len(sizes),))
  sym = (w, b, X, y, Dm, dw, win, keys)
  assum = [d >= 0 for d in Dm] + [d < ND for d in Dm]
  # invariant: weights strictly inside the simplex (exp-gradient never produces an exact 0 from a positive start),
  # window = W vectors of non-negative counts (a column may be all zero: a domain unseen for W rounds)
  assum += [v > 0 for v in dw] + [sum(dw[i] for i in range(ND)) == 1]
  for j in range(ND):
    assum += [win[i, j] >= 0 for i in range(W)]
  viol = []
  npaths = 0
  try:
    for out, pcs, ctx, script in sj.explore(agnostic_code(cfg), jh.abstract_of(sym), sym):
      base = assum + list(pcs)
      st, _ = sj.check_sat(base + ctx.all_facts(), timeout)
      if st == 'unsat':
        continue
      npaths += 1
      goals = []
      ws = [out['weights'][i] for i in range(ND)]
      for i in range(ND):
        goals.append(('weight-finite[%d]%s' % (i, script), sj.finite(ws[i])))
        goals.append(('weight>0[%d]%s' % (i, script), sj.B_and(sj.finite(ws[i]), sj.f_lt(Fraction(0), ws[i]))))
      tot = Fraction(0)
      for v in ws:
        tot = sj.f_add(tot, v)
      goals.append(('weights-sum-to-1%s' % (script,), sj.B_and(sj.finite(tot), sj.f_eq(tot, Fraction(1)))))
      goals.append(('window-length%s' % (script,), int(np.asarray(out['window_len']).reshape(-1)[0]) == W if not sj.is_z(out['window_len'].reshape(-1)[0]) else False))
      wn = out['window']
      if wn.shape == (W, ND):
        for i in range(W - 1):
          for j in range(ND):
            goals.append(('window-shift[%d,%d]%s' % (i, j, script), sj.same(wn[i, j], win[i + 1, j])))
        # newest entry = per-domain count of real examples this round
        for j in range(ND):
          cnt = sum([z3.If(Dm[r] == j, z3.RealVal(1), z3.RealVal(0)) for r in range(N)]) if N else Fraction(0)
          goals.append(('window-newest[%d]%s' % (j, script), sj.same(wn[W - 1, j], cnt)))
      else:
        goals.append(('window-shape', False))
      for leaf in jh.flat_leaves(out['params']):
        for e in leaf.reshape(-1):
          goals.append(('params-finite%s' % (script,), sj.finite(e)))
      bad = h.prove_all('inv', ctx, base, goals)
      viol += [(g, m, ctx) for g, m in bad]
  except Exception as e:   # pylint: disable=broad-except
    if jh.engine_fault(e):
      raise
    run.ob(nm + ':raises', 'sat', detail=repr(e)[:300])
    viol.append(('raises', None, None))
  if npaths == 0:
    run.witness(nm + ':reach', 'reach', False, 'no feasible path')
  if viol:
    g, model, _ = viol[0]
    if model is not None:
      args = jh.concrete_args(model, sym)
    else:
      rng = np.random.RandomState(0)
      args = [rng.randint(-1, 2, size=a.shape).astype(float) for a in sym[:4]] + [np.zeros(Dm.shape, int), np.ones(ND) / ND, np.ones((W, ND)), np.zeros(keys.shape, np.uint32)]
    data = {'kind': 'agnostic', 'cfg': cfg, 'args': [np.asarray(a).tolist() for a in args]}
    ok, msg = replay_subprocess('C17', data)
    run.violation('agnostic:' + g.split('[')[0].split('(')[0], 'agnostic FedAvg invariant %s fails: %s' % (g, msg), data, ok)


def replay_agnostic(data):
  cfg = data['cfg']
  a = data['args']
  ND, W = cfg['domains'], cfg['window']
  args = [jnp.asarray(np.asarray(x, np.float64)) for x in a[:4]] + [jnp.asarray(np.asarray(a[4], np.int32))] + \
      [jnp.asarray(np.asarray(a[5], np.float64)), jnp.asarray(np.asarray(a[6], np.float64)), jnp.asarray(np.asarray(a[7], np.uint32))]
  try:
    out = agnostic_code(cfg)(*args)
  except Exception as e:   # pylint: disable=broad-except
    return True, 'real code raises %r' % (e,)
  wts = np.asarray(out['weights'], np.float64)
  msgs = []
  if not np.all(np.isfinite(wts)) or np.any(wts < -1e-9) or abs(wts.sum() - 1) > 1e-6:
    msgs.append('domain weights %s (sum %.6g)' % (wts.tolist(), wts.sum()))
  win = np.asarray(out['window'], np.float64)
  oldw = np.asarray(a[6], np.float64)
  dm = np.asarray(a[4])[:-1]
  cnt = np.asarray([(dm == j).sum() for j in range(ND)], np.float64)
  if win.shape != (W, ND) or not np.allclose(win[:-1], oldw[1:]) or not np.allclose(win[-1], cnt):
    msgs.append('window %s, expected %s' % (win.tolist(), np.vstack([oldw[1:], cnt]).tolist()))
  if not all(np.all(np.isfinite(np.asarray(l))) for l in jax.tree_util.tree_leaves(out['params'])):
    msgs.append('non-finite params')
  return bool(msgs), '; '.join(msgs) or 'invariants hold'


# =====================================================================================================
# (e) ignore_grads_haiku
# =====================================================================================================
def run_ignore(run, timeout):
  F = _fx()
  import haiku as hk
  h = jh.Harness(run, 'ignore_grads', timeout)
  ini, app = ufs.make_uf('optinit17'), ufs.make_uf('optapply17')
  base = F['optimizers'].Optimizer(
      init=lambda p: {'slot': ufs.uf_call(ini, p, p)},
      apply=lambda g, s, p: tuple(ufs.uf_call(app, (s, p), g, s, p)))
  names = [('linear_1', 'w'), ('linear_2', 'b')]
  for base_kind in ('uf', 'momentum'):
    bopt = base if base_kind == 'uf' else F['optimizers'].sgd(0.5, momentum=0.5)
    opt = F['optimizers'].ignore_grads_haiku(bopt, names)

    def mk(tag):
      return {'linear_1': {'w': sj.symarr(tag + '1w', (2,))}, 'linear_2': {'w': sj.symarr(tag + '2w', (2,)), 'b': sj.symarr(tag + '2b', ())}}
    params, grads, grads2 = mk('p'), mk('g'), mk('h')

    def code(p, g, g2):
      s = opt.init(p)
      s1, p1 = opt.apply(g, s, p)
      s2, p2 = opt.apply(g2, s1, p1)          # second step: optimizer state must have been threaded
      return {'p1': hk.data_structures.to_mutable_dict(p1), 'p2': hk.data_structures.to_mutable_dict(p2), 's2': s2}

    def ref(p, g, g2):
      sub = lambda t: {'linear_2': {'w': t['linear_2']['w']}}
      s = bopt.init(sub(p))
      s1, q1 = bopt.apply(sub(g), s, sub(p))
      s2, q2 = bopt.apply(sub(g2), s1, q1)
      full = lambda q: {'linear_1': {'w': p['linear_1']['w']}, 'linear_2': {'w': q['linear_2']['w'], 'b': p['linear_2']['b']}}
      return {'p1': full(q1), 'p2': full(q2), 's2': s2}
    sym = (params, grads, grads2)
    try:
      cexs = jh.Harness(run, 'ignore_grads[%s]' % base_kind, timeout).equiv(code, ref, sym)
    except Exception as e:   # pylint: disable=broad-except
      if jh.engine_fault(e):
        raise
      run.ob('ignore_grads[%s]:raises' % base_kind, 'sat', detail=repr(e)[:300])
      cexs = [{'model': None}]
    if cexs and base_kind == 'momentum':
      c = cexs[0]
      args = jh.concrete_args(c['model'], sym) if c.get('model') is not None else jax.tree_util.tree_map(lambda a: np.ones(a.shape), sym, is_leaf=lambda z: isinstance(z, np.ndarray))
      data = {'kind': 'ignore', 'args': jax.tree_util.tree_map(lambda a: np.asarray(a).tolist(), args)}
      ok, msg = replay_subprocess('C17', data)
      run.violation('ignore_grads_haiku', 'ignore_grads_haiku differs from the base optimizer on the trainable sub-tree: %s' % msg, data, ok)
    elif cexs:
      run.notes.append('ignore_grads counterexample in the uninterpreted-optimizer family')
      uf_failed = True
      run.extra['ignore_uf_failed'] = True
  if run.extra.get('ignore_uf_failed') and not any(v['key'] == 'ignore_grads_haiku' for v in run.violations):
    run.fail('ignore_grads_haiku: counterexample only with the uninterpreted optimizer (not replayable)')


def replay_ignore(data):
  F = _fx()
  import haiku as hk
  names = [('linear_1', 'w'), ('linear_2', 'b')]
  bopt = F['optimizers'].sgd(0.5, momentum=0.5)
  opt = F['optimizers'].ignore_grads_haiku(bopt, names)
  p, g, g2 = jax.tree_util.tree_map(lambda a: jnp.asarray(np.asarray(a, np.float64)), tuple(data['args']),
                                    is_leaf=lambda z: isinstance(z, list) and (not z or not isinstance(z[0], dict)))
  s = opt.init(p)
  s1, p1 = opt.apply(g, s, p)
  s2, p2 = opt.apply(g2, s1, p1)
  sub = lambda t: {'linear_2': {'w': t['linear_2']['w']}}
  r = bopt.init(sub(p))
  r1, q1 = bopt.apply(sub(g), r, sub(p))
  r2, q2 = bopt.apply(sub(g2), r1, q1)
  msgs = []
  if not np.array_equal(np.asarray(p2['linear_1']['w']), np.asarray(p['linear_1']['w'])) or \
     not np.array_equal(np.asarray(p2['linear_2']['b']), np.asarray(p['linear_2']['b'])):
    msgs.append('ignored parameters changed')
  if float(np.max(np.abs(np.asarray(p2['linear_2']['w']) - np.asarray(q2['linear_2']['w'])))) > 1e-9:
    msgs.append('trainable params after 2 steps %s, base optimizer gives %s' % (np.asarray(p2['linear_2']['w']).tolist(), np.asarray(q2['linear_2']['w']).tolist()))
  d, where = jh.max_discrepancy(s2, r2)
  if d > 1e-9:
    msgs.append('optimizer state differs: %s' % where)
  return bool(msgs), '; '.join(msgs) or 'agrees'


# =====================================================================================================
# (c) HypCluster: minimal-loss assignment; clusters updated from their own clients only; empty clusters untouched
# =====================================================================================================
def hyp_alg(X, y, sopt_kind, backend='jit'):
  F = _fx()
  o = F['optimizers']
  sopt = o.sgd(1.0) if sopt_kind == 'sgd' else o.sgd(1.0, momentum=0.5)
  mk = lambda: F['hyp_cluster'].hyp_cluster(lin_pel(X, y), o.sgd(0.5), sopt, F['cds'].PaddedBatchHParams(batch_size=2), hp(2))
  if backend == 'pmap':
    # the pmap backend reorders clients by batch count; symbolically through the API model, concretely on forced host devices
    from fedjax.core import for_each_client as fec
    from . import c02
    if isinstance(X, jax.core.Tracer) or jax.local_device_count() < 2:
      with c02.pmap_model(2):
        with fec.for_each_client_backend(fec.ForEachClientPmapBackend()):
          return mk(), sopt
    with fec.for_each_client_backend(fec.ForEachClientPmapBackend(jax.local_devices()[:2])):
      return mk(), sopt
  return mk(), sopt


def hyp_code(cfg):
  F = _fx()
  sizes, K = cfg['sizes'], cfg['clusters']

  def fn(ws, bs, mom, X, y, keys):
    alg, sopt = hyp_alg(X, y, cfg['sopt'], cfg.get('backend', 'jit'))
    cps = [{'w': ws[k], 'b': bs[k]} for k in range(K)]
    st0 = alg.init(cps)
    if cfg['sopt'] == 'momentum':   # arbitrary pre-state of the server optimizer
      opt_states = [jax.tree_util.tree_map(lambda l, k=k: l, st0.opt_states[k]) for k in range(K)]
      opt_states = [_with_trace(st0.opt_states[k], {'w': mom[k, :D], 'b': mom[k, D]}) for k in range(K)]
    else:
      opt_states = st0.opt_states
    state = F['hyp_cluster'].ServerState(cps, opt_states)
    clients = [(cid, d, keys[i]) for i, (cid, d) in enumerate(zip(ids(sizes), datasets(sizes)))]
    if cfg.get('backend') == 'pmap' and (isinstance(X, jax.core.Tracer) or jax.local_device_count() < 2):
      from . import c02
      with c02.pmap_model(2):
        new, diag = alg.apply(state, clients)
    else:
      new, diag = alg.apply(state, clients)
    assign = [diag[cid]['cluster_id'] for cid in ids(sizes)]
    return {'params': new.cluster_params, 'opt': [_trace_of(s) for s in new.opt_states] if cfg['sopt'] == 'momentum' else [],
            'assign': jnp.stack([jnp.asarray(a) for a in assign])}
  return fn


def _with_trace(opt_state, trace):
  leaves, tree = jax.tree_util.tree_flatten(opt_state)
  tl = jax.tree_util.tree_leaves(trace)
  shapes = [tuple(l.shape) for l in leaves]
  out, ti = [], 0
  for l in leaves:
    if ti < len(tl) and tuple(l.shape) == tuple(tl[ti].shape) and np.dtype(l.dtype).kind == 'f':
      out.append(tl[ti])
      ti += 1
    else:
      out.append(l)
  return jax.tree_util.tree_unflatten(tree, out)


def _trace_of(opt_state):
  return [l for l in jax.tree_util.tree_leaves(opt_state) if np.dtype(l.dtype).kind == 'f']


def hyp_ref(cfg, assignment):
  """cluster k's new params = server step on the example-weighted mean delta of the clients assigned to k."""
  F = _fx()
  sizes, K = cfg['sizes'], cfg['clusters']
  batch_lists = [[np.asarray(bt['idx']) for bt in d.shuffle_repeat_batch(hp(2))] if len(d) else [] for d in datasets(sizes)]

  def fn(ws, bs, mom, X, y, keys):
    o = F['optimizers']
    pel0 = lin_pel(X, y)
    copt = o.sgd(0.5)
    sopt = o.sgd(1.0) if cfg['sopt'] == 'sgd' else o.sgd(1.0, momentum=0.5)
    cps = [{'w': ws[k], 'b': bs[k]} for k in range(K)]
    new_params, new_opt = [], []
    for k in range(K):
      members = [i for i, a in enumerate(assignment) if a == k]
      s0 = sopt.init(cps[k])
      if cfg['sopt'] == 'momentum':
        s0 = _with_trace(s0, {'w': mom[k, :D], 'b': mom[k, D]})
      tot = sum(sizes[i] for i in members)
      if tot == 0:
        new_params.append(cps[k])
        new_opt.append(_trace_of(s0))
        continue
      deltas = []
      for i in members:
        p, s = cps[k], copt.init(cps[k])
        for bidx in batch_lists[i]:
          g = jax.grad(lambda q: jnp.mean(pel0(q, {'idx': bidx}, None)))(p)
          s, p = copt.apply(g, s, p)
        deltas.append(jax.tree_util.tree_map(lambda a, c: a - c, cps[k], p))
      mean = jax.tree_util.tree_map(lambda *ds: sum(sizes[i] * d for i, d in zip(members, ds)) / tot, *deltas)
      s1, p1 = sopt.apply(mean, s0, cps[k])
      new_params.append(p1)
      new_opt.append(_trace_of(s1))
    return {'params': new_params, 'opt': new_opt if cfg['sopt'] == 'momentum' else [],
            'assign': jnp.asarray(assignment, jnp.int32)}
  return fn


def run_hyp(run, cfg, timeout):
  F = _fx()
  nm = 'hypcluster[%s]' % ','.join('%s=%s' % (k, cfg[k]) for k in sorted(cfg))
  sizes, K = cfg['sizes'], cfg['clusters']
  N = max(sum(sizes), 1)
  ws, bs = sj.symarr('cw', (K, D)), sj.symarr('cb', (K,))
  mom = sj.symarr('mom', (K, D + 1))
  X, y = sj.symarr('X', (N, D)), sj.symarr('y', (N,))
  keys = sj.rawkeyarr('k', (len(sizes),))
  sym = (ws, bs, mom, X, y, keys)
  real_dg = jax.device_get
  jax.device_get = lambda x: x
  viol = []
  feasible = 0
  try:
    # (1) assignment = argmin of the client's average loss per cluster (lowest index on ties)
    ctx = sj.Ctx()

    def assign_fn(ws_, bs_, mom_, X_, y_, keys_):
      import contextlib
      from fedjax.core import for_each_client as fec
      from . import c02
      ctxm = contextlib.ExitStack()
      if cfg.get('backend') == 'pmap':
        ctxm.enter_context(c02.pmap_model(2))
        ctxm.enter_context(fec.for_each_client_backend(fec.ForEachClientPmapBackend()))
      with ctxm:
        ev = F['models'].AverageLossEvaluator(lin_pel(X_, y_))
        cps = [{'w': ws_[k], 'b': bs_[k]} for k in range(K)]
        clients = [(cid, d, keys_[i]) for i, (cid, d) in enumerate(zip(ids(sizes), datasets(sizes)))]
        res = F['hyp_cluster'].maximization_step(ev, cps, clients, F['cds'].PaddedBatchHParams(batch_size=2))
      return jnp.stack([jnp.asarray(res[cid]) for cid in ids(sizes)])
    out, pcs, _, _ = sj.run_symbolic(assign_fn, jh.abstract_of(sym), sym, ctx=ctx)
    h = jh.Harness(run, nm, timeout)
    goals = []
    for i, (o_, n) in enumerate(zip(offsets(sizes), sizes)):
      losses = []
      for k in range(K):
        acc = Fraction(0)
        for r in range(o_, o_ + n):
          e = sj.f_sub(sj.f_add(sum([sj.f_mul(X[r, d], ws[k, d]) for d in range(D)], Fraction(0)), bs[k]), y[r])
          acc = sj.f_add(acc, sj.f_mul(e, e))
        losses.append(sj.f_div(acc, Fraction(n)) if n else Fraction(0))
      neg = [sj.f_neg(l) for l in losses]
      goals.append(('assignment-minimal[c%d]' % i, sj.n_eq(out[i], mc.ref_argmax(neg, K))))
    viol += [(g, m, 'assign') for g, m in h.prove_all('assign', ctx, [], goals)]
    # (2) update: for every assignment vector
    for out, pcs, ctx, script in sj.explore(hyp_code(cfg), jh.abstract_of(sym), sym, index_domain=list(range(K)), max_paths=200, max_depth=12):
      st, _ = sj.check_sat(list(pcs) + ctx.all_facts(), timeout)
      if st == 'unsat':
        continue
      feasible += 1
      forks = [d[1] for d in script if isinstance(d, tuple)]
      nonempty = [i for i, n in enumerate(sizes) if n > 0]
      # an empty client has loss 0 under every cluster: its argmin is the constant 0 (no fork); the others fork in client order
      assignment = [0] * len(sizes)
      for i, a_ in zip(nonempty, forks):
        assignment[i] = a_
      if len(forks) not in (len(nonempty), len(sizes)):
        assignment = []
      elif len(forks) == len(sizes):
        assignment = forks[:len(sizes)]
      if len(assignment) != len(sizes):
        run.ob(nm + ':paths', 'error', detail='unexpected fork structure %s' % (script,))
        continue
      ref, _, _, _ = sj.run_symbolic(hyp_ref(cfg, assignment), jh.abstract_of(sym), sym, ctx=ctx)
      goals = []
      for (p, a), (_, r) in zip(jh.flat_with_paths({'params': out['params'], 'opt': out['opt']}),
                                jh.flat_with_paths({'params': ref['params'], 'opt': ref['opt']})):
        for idx in np.ndindex(*a.shape):
          goals.append(('%s%s|assign=%s' % (p, list(idx), assignment), sj.same(a[idx], r[idx])))
      viol += [(g, m, assignment) for g, m in h.prove_all('update', ctx, list(pcs), goals)]
  except Exception as e:   # pylint: disable=broad-except
    if jh.engine_fault(e):
      raise
    run.ob(nm + ':raises', 'sat', detail=repr(e)[:300])
    viol.append(('raises', None, None))
  finally:
    jax.device_get = real_dg
  run.witness(nm + ':reach', 'reach', feasible > 0 or bool(viol), '%d feasible assignment paths' % feasible)
  run.extra.setdefault('hypcluster_assignment_paths', 0)
  run.extra['hypcluster_assignment_paths'] += feasible
  if viol:
    g, model, _ = viol[0]
    args = jh.concrete_args(model, sym) if model is not None else [np.ones(a.shape) for a in sym[:5]] + [np.zeros(keys.shape, np.uint32)]
    data = {'kind': 'hyp', 'cfg': cfg, 'args': [np.asarray(a).tolist() for a in args]}
    ok, msg = replay_subprocess('C17', data, {'XLA_FLAGS': '--xla_force_host_platform_device_count=2'} if cfg.get('backend') == 'pmap' else None)
    run.violation('hypcluster:' + g.split('[')[0].split('|')[0][:40], 'HypCluster invariant %s fails: %s' % (g, msg), data, ok)


def replay_hyp(data):
  cfg = data['cfg']
  a = data['args']
  args = [jnp.asarray(np.asarray(x, np.float64)) for x in a[:5]] + [jnp.asarray(np.asarray(a[5], np.uint32))]
  try:
    out = hyp_code(cfg)(*args)
  except Exception as e:   # pylint: disable=broad-except
    return True, 'real code raises %r' % (e,)
  assignment = [int(v) for v in np.asarray(out['assign'])]
  # independent check of minimality
  ws, bs, mom, X, y = [np.asarray(x, np.float64) for x in a[:5]]
  msgs = []
  for i, (o_, n) in enumerate(zip(offsets(cfg['sizes']), cfg['sizes'])):
    losses = [np.mean((X[o_:o_ + n] @ ws[k] + bs[k] - y[o_:o_ + n]) ** 2) if n else 0.0 for k in range(cfg['clusters'])]
    best = int(np.argmin(losses))
    if losses[assignment[i]] > losses[best] + 1e-9:
      msgs.append('client %d assigned to cluster %d with loss %.6g > %.6g' % (i, assignment[i], losses[assignment[i]], losses[best]))
  ref = hyp_ref(cfg, assignment)(*args)
  d, where = jh.max_discrepancy({'p': out['params'], 'o': out['opt']}, {'p': ref['params'], 'o': ref['opt']})
  if d > 1e-6:
    msgs.append('cluster update differs from own-clients-only definition (assignment %s): %s' % (assignment, where))
  return bool(msgs), '; '.join(msgs) or 'agrees'


# =====================================================================================================
# (d) MimeLite clipping
# =====================================================================================================
def uf_pel():
  loss, _, _ = ufs.make_uf_loss('loss17')

  def pel(params, batch, rng):
    idx = np.asarray(batch['idx'])
    if len(idx) == 0:
      return jnp.zeros((0,))
    return jnp.stack([loss(params, (jnp.asarray(int(i), jnp.int32),)) for i in idx])
  return pel


def mime_code(cfg, concrete=False):
  F = _fx()
  sizes = cfg['sizes']

  def fn(w, b, X, y, c, keys):
    clip = cfg['clip'] if cfg['clip'] != 'sym' else c
    alg = F['mime_lite'].mime_lite(lin_pel(X, y) if concrete else uf_pel(), F['optimizers'].sgd(0.5), hp(2), F['cds'].PaddedBatchHParams(batch_size=2),
                                   server_learning_rate=1.0, client_delta_clip_norm=clip)
    state = alg.init({'w': w, 'b': b})
    clients = [(cid, d, keys[i]) for i, (cid, d) in enumerate(zip(ids(sizes), datasets(sizes)))]
    new, diag = alg.apply(state, clients)
    return {'params': new.params, 'clipped_norms': jnp.stack([diag[cid].get('clipped_delta_l2_norm', diag[cid]['delta_l2_norm'])   # norm of what is aggregated
                                            for cid in ids(sizes)])}
  return fn


def mime_deltas(cfg, concrete=False):
  """unclipped client deltas by definition (local SGD steps)."""
  F = _fx()
  sizes = cfg['sizes']
  batch_lists = [[np.asarray(bt['idx']) for bt in d.shuffle_repeat_batch(hp(2))] if len(d) else [] for d in datasets(sizes)]

  def fn(w, b, X, y, c, keys):
    params = {'w': w, 'b': b}
    pel0 = lin_pel(X, y) if concrete else uf_pel()
    copt = F['optimizers'].sgd(0.5)
    out = []
    for i in range(len(sizes)):
      p, s = params, copt.init(params)
      for bidx in batch_lists[i]:
        g = jax.grad(lambda q: jnp.mean(pel0(q, {'idx': bidx}, None)))(p)
        s, p = copt.apply(g, s, p)
      d = jax.tree_util.tree_map(lambda a_, c_: a_ - c_, params, p)
      out.append(jnp.concatenate([d['w'], d['b'][None]]))
    return jnp.stack(out)
  return fn


def run_mime(run, cfg, timeout):
  nm = 'mimelite[%s]' % ','.join('%s=%s' % (k, cfg[k]) for k in sorted(cfg))
  h = jh.Harness(run, nm, timeout)
  sizes = cfg['sizes']
  N = max(sum(sizes), 1)
  w, b, X, y = sj.symarr('w', (D,)), sj.symarr('b', ()), sj.symarr('X', (N, D)), sj.symarr('y', (N,))
  c = sj.symarr('c', ())
  sj.declare_sign(c[()], 'pos')       # clip norm > 0 (also asserted as an assumption below)
  keys = sj.rawkeyarr('k', (len(sizes),))
  sym = (w, b, X, y, c, keys)
  ctx = sj.Ctx()
  viol = []
  try:
    out, pcs, _, _ = sj.run_symbolic(mime_code(cfg), jh.abstract_of(sym), sym, ctx=ctx)
    dl, _, _, _ = sj.run_symbolic(mime_deltas(cfg), jh.abstract_of(sym), sym, ctx=ctx)
    cval = c[()] if cfg['clip'] == 'sym' else Fraction(cfg['clip'])
    assum = [c[()] > 0] if cfg['clip'] == 'sym' else []
    nonzero = []
    for i in range(len(sizes)):
      n2 = sum([sj.zr(dl[i, j]) * sj.zr(dl[i, j]) for j in range(D + 1)])
      nonzero.append(n2 > 0)
    if cfg['clip'] == 0.0:
      assum += nonzero      # (clip norm 0 and a zero update is 0/0: excluded corner, see DESIGN.md)
    goals = []
    for i in range(len(sizes)):
      goals.append(('aggregated-norm<=bound[c%d]' % i, sj.B_and(sj.finite(out['clipped_norms'][i]),
                                                                 sj.f_le(out['clipped_norms'][i], cval))))
    # server update uses the clipped deltas: params' = params - sum n_i clip(delta_i) / sum n_i,  clip(d) = d * min(1, c/||d||)
    tot = sum(sizes)

    def ref_update(w_, b_, X_, y_, c_, keys_):
      dl_ = mime_deltas(cfg)(w_, b_, X_, y_, c_, keys_)
      cc = cfg['clip'] if cfg['clip'] != 'sym' else c_
      acc = jnp.zeros((D + 1,))
      for i in range(len(sizes)):
        nrm = jnp.sqrt(jnp.sum(dl_[i] * dl_[i]))
        acc = acc + sizes[i] * dl_[i] * jnp.minimum(1, cc / nrm)
      pin_ = jnp.concatenate([w_, b_[None]])
      return pin_ - (acc / tot if tot else 0 * acc)
    refp, _, _, _ = sj.run_symbolic(ref_update, jh.abstract_of(sym), sym, ctx=ctx)
    pout = [out['params']['w'][0], out['params']['w'][1], out['params']['b'][()]]
    for j in range(D + 1):
      goals.append(('server-uses-clipped-deltas[%d]' % j, sj.B_and(sj.finite(pout[j]), sj.same(pout[j], refp[j]))))
    viol = h.prove_all('clip', ctx, assum, goals)
    h.witness_sat('reach(some update exceeds the bound)', ctx, assum + [z3.Or(*[sum([sj.zr(dl[i, j]) * sj.zr(dl[i, j]) for j in range(D + 1)]) > sj.zr(cval) * sj.zr(cval) for i in range(len(sizes))])])
  except Exception as e:   # pylint: disable=broad-except
    if jh.engine_fault(e):
      raise
    run.ob(nm + ':raises', 'sat', detail=repr(e)[:300])
    viol = [('raises', None)]
  if viol:
    g, model = viol[0]
    args = jh.concrete_args(model, sym) if model is not None else [np.ones(a.shape) for a in sym[:4]] + [np.asarray(0.5), np.zeros(keys.shape, np.uint32)]
    data = {'kind': 'mime', 'cfg': cfg, 'args': [np.asarray(a).tolist() for a in args]}
    ok, msg = replay_subprocess('C17', data)
    run.violation('mimelite:' + g.split('[')[0], 'MimeLite clipping invariant %s fails: %s' % (g, msg), data, ok)


def replay_mime(data):
  """Replay on the real code with a concrete quadratic loss whose client updates exceed the bound."""
  cfg = data['cfg']
  rng = np.random.RandomState(1)
  N = max(sum(cfg['sizes']), 1)
  a = [np.ones(D), 0.5, rng.randn(N, D) * 2, rng.randn(N) * 3, 0.25, np.zeros((len(cfg['sizes']), 2), np.uint32)]
  args = [jnp.asarray(np.asarray(x, np.float64)) for x in a[:5]] + [jnp.asarray(np.asarray(a[5], np.uint32))]
  cval = float(a[4]) if cfg['clip'] == 'sym' else float(cfg['clip'])
  try:
    out = mime_code(cfg, concrete=True)(*args)
  except Exception as e:   # pylint: disable=broad-except
    return True, 'real code raises %r' % (e,)
  dl = np.asarray(mime_deltas(cfg, concrete=True)(*args), np.float64)
  norms = np.sqrt((dl ** 2).sum(axis=1))
  scale = np.where(norms <= cval, 1.0, cval / np.where(norms > 0, norms, 1.0))
  sizes = np.asarray(cfg['sizes'], np.float64)
  agg = (sizes[:, None] * scale[:, None] * dl).sum(axis=0) / max(sizes.sum(), 1)
  pin = np.concatenate([np.asarray(a[0], np.float64), [float(a[1])]])
  pout = np.concatenate([np.asarray(out['params']['w'], np.float64), [float(out['params']['b'])]])
  msgs = []
  cn = np.asarray(out['clipped_norms'], np.float64)
  if np.any(~np.isfinite(cn)) or np.any(cn > cval * (1 + 1e-6) + 1e-9):
    msgs.append('aggregated client update norms %s exceed the bound %s' % (cn.tolist(), cval))
  if np.any(~np.isfinite(pout)) or float(np.max(np.abs(pout - (pin - agg)))) > 1e-6 * (1 + float(np.max(np.abs(pin)))):
    msgs.append('new params %s, clipped-delta definition gives %s' % (pout.tolist(), (pin - agg).tolist()))
  return bool(msgs), '; '.join(msgs) or 'agrees'


# =====================================================================================================
# (b) APFL: coefficients stay in [0,1]; client state only for participants
# =====================================================================================================
def apfl_code(cfg):
  F = _fx()
  sizes = cfg['sizes']
  g = ufs.make_uf('grad17')

  def fn(w, b, cw, cb, aw, ab, keys):
    def grad_fn(params, batch, rng):
      return ufs.uf_call(g, params, params, jnp.asarray(batch['idx'], jnp.int32))
    o = F['optimizers']
    alg = F['apfl'].adaptive_personalized_federated_learning(grad_fn, o.sgd(0.5), o.sgd(1.0), hp(2), client_coefficient=0.25)
    st = alg.init({'w': w, 'b': b})
    pre = {}
    for i in cfg['known']:
      pre[ids(sizes)[i]] = F['apfl'].ClientState(params={'w': cw[i], 'b': cb[i]}, interpolation_coefficients={'w': aw[i], 'b': ab[i]})  # one coefficient per leaf
    state = F['apfl'].ServerState(st.params, st.opt_state, dict(pre))
    clients = [(ids(sizes)[i], datasets(sizes)[i], keys[i]) for i in cfg['participants']]
    new, diag = alg.apply(state, clients)
    coeffs = [jnp.concatenate([jnp.ravel(jnp.asarray(l, jnp.float32)) for l in jax.tree_util.tree_leaves(new.client_states[cid].interpolation_coefficients)])
              for cid in sorted(new.client_states)]
    return {'coeffs': jnp.stack(coeffs) if coeffs else jnp.zeros((0, 2)), 'keys': sorted(new.client_states)}
  return fn


def run_apfl(run, cfg, timeout):
  nm = 'apfl[%s]' % ','.join('%s=%s' % (k, cfg[k]) for k in sorted(cfg))
  h = jh.Harness(run, nm, timeout)
  sizes = cfg['sizes']
  n = len(sizes)
  w, b = sj.symarr('w', (D,)), sj.symarr('b', ())
  cw, cb = sj.symarr('cw', (n, D)), sj.symarr('cb', (n,))
  aw, ab = sj.symarr('aw', (n,)), sj.symarr('ab', (n,))
  keys = sj.rawkeyarr('k', (n,))
  sym = (w, b, cw, cb, aw, ab, keys)
  assum = []
  for i in range(n):
    for v in [aw[i], ab[i]]:
      assum += [v >= 0, v <= 1]
  ctx = sj.Ctx()
  captured = {}

  def wrapped(*a):
    out = apfl_code(cfg)(*a)
    captured['keys'] = out.pop('keys')
    return out
  try:
    out, pcs, _, _ = sj.run_symbolic(wrapped, jh.abstract_of(sym), sym, ctx=ctx)
    expect_keys = sorted({ids(sizes)[i] for i in cfg['known']} | {ids(sizes)[i] for i in cfg['participants']})
    goals = [('client-state-keys', captured['keys'] == expect_keys)]
    for idx in np.ndindex(*out['coeffs'].shape):
      e = out['coeffs'][idx]
      goals.append(('coefficient-in-[0,1]%s' % (list(idx),), sj.B_and(sj.finite(e), sj.f_le(Fraction(0), e), sj.f_le(e, Fraction(1)))))
    viol = h.prove_all('inv', ctx, assum, goals)
    h.witness_sat('reach', ctx, assum)
  except Exception as e:   # pylint: disable=broad-except
    if jh.engine_fault(e):
      raise
    run.ob(nm + ':raises', 'sat', detail=repr(e)[:300])
    viol = [('raises: %r' % (e,), None)]
  if viol:
    g, model = viol[0]
    data = {'kind': 'apfl', 'cfg': cfg}
    ok, msg = replay_subprocess('C17', data)
    run.violation('apfl:' + g.split('[')[0][:40], 'APFL invariant %s fails: %s' % (g, msg), data, ok)


def replay_apfl(data):
  """Concrete replay with a real quadratic gradient and large learning rate so that unclipped coefficients leave [0,1]."""
  F = _fx()
  cfg = data['cfg']
  sizes = cfg['sizes']
  o = F['optimizers']
  rng = np.random.RandomState(0)
  N = sum(sizes)
  X, y = rng.randn(max(N, 1), D) * 3, rng.randn(max(N, 1)) * 3
  grad_fn = F['models'].grad(lin_pel(jnp.asarray(X), jnp.asarray(y)))
  alg = F['apfl'].adaptive_personalized_federated_learning(grad_fn, o.sgd(0.5), o.sgd(1.0), hp(2), client_coefficient=0.25)
  st = alg.init({'w': jnp.ones(D), 'b': jnp.zeros(())})
  pre = {ids(sizes)[i]: F['apfl'].ClientState(params={'w': jnp.ones(D) * 3, 'b': jnp.ones(())}, interpolation_coefficients={'w': jnp.ones(D) * 0.9, 'b': jnp.asarray(0.1)})
         for i in cfg['known']}
  state = F['apfl'].ServerState(st.params, st.opt_state, dict(pre))
  clients = [(ids(sizes)[i], datasets(sizes)[i], jax.random.PRNGKey(i)) for i in cfg['participants']]
  try:
    new, _ = alg.apply(state, clients)
  except Exception as e:   # pylint: disable=broad-except
    return True, 'real code raises %s: %s' % (type(e).__name__, str(e).split('\n')[0][:160])
  msgs = []
  exp = sorted({ids(sizes)[i] for i in cfg['known']} | {ids(sizes)[i] for i in cfg['participants']})
  if sorted(new.client_states) != exp:
    msgs.append('client_states keys %s, expected %s' % (sorted(new.client_states), exp))
  for cid, cs in new.client_states.items():
    for l in jax.tree_util.tree_leaves(cs.interpolation_coefficients):
      v = np.asarray(l, np.float64)
      if np.any(~np.isfinite(v)) or np.any(v < 0) or np.any(v > 1):
        msgs.append('interpolation coefficient %s of %s outside [0,1]' % (v.tolist(), cid))
  return bool(msgs), '; '.join(msgs) or 'invariants hold'


def apfl_eval_probe(run):
  """Concrete probe: APFL's eval function on never-seen clients leaves client_states as it was (state only for participants)."""
  from . import c10
  bad, msg = c10.concrete_apfl_eval_purity()
  run.ob('concrete:apfl-eval-stores-no-client-state', 'sat' if bad else 'unsat', detail=msg if bad else None, nontrivial=False)
  if bad:
    run.violation('apfl:eval-adds-client-state', 'APFL stores client state for a client that has not participated: %s' % msg, {'kind': 'apfl_eval'}, True)


def replay(data):
  if data.get('kind') == 'apfl_eval':
    from . import c10
    return c10.concrete_apfl_eval_purity()
  return {'agnostic': replay_agnostic, 'ignore': replay_ignore, 'hyp': replay_hyp, 'mime': replay_mime, 'apfl': replay_apfl}[data['kind']](data)


def check(run):
  timeout = 90.0 if run.tier == 'quick' else 300.0
  thorough = run.tier == 'thorough'
  run.functions += ['agnostic_fed_avg.agnostic_federated_averaging(...).apply / update_domain_weights', 'apfl...apply/client_step',
                    'hyp_cluster.maximization_step/_cluster_assignment/expectation_step/apply', 'mime_lite.mime_lite(...).apply + tree_clip_by_global_norm',
                    'optimizers.ignore_grads_haiku']
  run.trusted += ['z3', 'vf/symjx.py interpreter', 'exp as uninterpreted positive function', 'jax.device_get modelled as identity while tracing',
                  'Python-level cluster indexing concretised over {0..K-1} with the path condition argmin == k']
  run.assumptions += ['inductive step: the pre-state is ARBITRARY subject to the invariant (weights on the simplex, window columns with '
                      'positive mean, coefficients in [0,1], arbitrary momentum state), so histories of any length are covered if the '
                      'invariant is inductive', 'MimeLite: clip norm > 0, plus clip norm 0 with non-zero updates (0/0 corner excluded)',
                      'finite inputs; floats read as reals']
  ag = [dict(sizes=[2, 1], domains=2, window=2), dict(sizes=[1], domains=3, window=1)]
  hy = [dict(sizes=[2, 1], clusters=2, sopt='momentum'), dict(sizes=[1, 1, 1], clusters=2, sopt='sgd'),
        dict(sizes=[1, 3], clusters=2, sopt='sgd', backend='pmap')]      # the pmap backend yields clients in a different order
  mi = [dict(sizes=[2, 1], clip='sym'), dict(sizes=[2], clip=0.0)]
  ap = [dict(sizes=[2, 1], known=[0], participants=[0, 1]), dict(sizes=[2, 1], known=[1], participants=[0])]
  if thorough:
    # (domains=3, window=3) and the padded [3, 0, 1] population were tried: z3 did not decide `weights-sum-to-1` / `params-finite`
    # within 300 s per goal, so they are outside the claim
    ag += [dict(sizes=[1, 2], domains=2, window=2), dict(sizes=[2, 1], domains=2, window=1)]
    hy += [dict(sizes=[2, 1, 1], clusters=2, sopt='momentum'), dict(sizes=[2, 0, 1], clusters=2, sopt='momentum')]
    mi += [dict(sizes=[2, 1, 1], clip='sym'), dict(sizes=[1, 2], clip=0.5)]
    ap += [dict(sizes=[2, 1, 1], known=[0, 2], participants=[1, 2])]
  run.bounds = {'domains': '<=3', 'window': '<=3', 'clusters': 2, 'clients': '<=3', 'configs': len(ag) + len(hy) + len(mi) + len(ap) + 2}
  for cfg in ag:
    run_agnostic(run, cfg, timeout)
  run_ignore(run, timeout)
  for cfg in hy:
    run_hyp(run, cfg, timeout)
  for cfg in mi:
    run_mime(run, cfg, timeout)
  for cfg in ap:
    run_apfl(run, cfg, timeout)
  apfl_eval_probe(run)
