"""Shared pieces of the metric harnesses (C05, C14, C20): metric grid, symbolic rows, first-principles references."""
from fractions import Fraction

import numpy as np
import z3

import jax
import jax.numpy as jnp

from .. import symjx as sj
from .. import jh

NINF = float('-inf')


def M():
  from fedjax.core import metrics
  return metrics


# ---- metric grid ---------------------------------------------------------------------------
def metric_grid(C, T, tier):
  """(name, constructor, kind) ; kind 'cls' = single-label (pred (C,), target ()), 'seq' = sequence (pred (T,C), target (T,))."""
  m = M()
  g = []
  g.append(('CrossEntropyLoss', lambda: m.CrossEntropyLoss(), 'cls', {}))
  g.append(('Accuracy', lambda: m.Accuracy(), 'cls', {}))
  ks = [-3, -2, -1, 0, 1, 2, C, C + 2] if tier == 'thorough' else [-1, 0, 1, 2, C + 1]
  for k in ks:
    g.append(('TopKAccuracy(k=%d)' % k, (lambda k=k: m.TopKAccuracy(k=k)), 'cls', {'k': k}))
  mvss = [(0,), (), (0, 1)] if tier == 'thorough' else [(0,), ()]
  lmask = tuple([0.0, NINF] + [0.0] * (C - 2))
  lmask_fin = tuple([0.0, -4.0] + [1.5] * (C - 2))       # a finite ("soft") logit mask: added to the scores like any other
  lmname = lambda lm: (lm is not None) if lm is not lmask_fin else 'finite'
  for mvs in mvss:
    for pp in (False, True):
      g.append(('SequenceTokenCrossEntropyLoss(mv=%s,pp=%s)' % (mvs, pp),
                (lambda mvs=mvs, pp=pp: m.SequenceTokenCrossEntropyLoss(masked_target_values=mvs, per_position=pp)), 'seq',
                {'mvs': mvs, 'pp': pp}))
      for lm in (None, lmask, lmask_fin):
        g.append(('SequenceTokenAccuracy(mv=%s,pp=%s,lm=%s)' % (mvs, pp, lmname(lm)),
                  (lambda mvs=mvs, pp=pp, lm=lm: m.SequenceTokenAccuracy(masked_target_values=mvs, per_position=pp, logits_mask=lm)),
                  'seq', {'mvs': mvs, 'pp': pp, 'lm': lm}))
      for k in ([-1, 0, 1, 2, C + 1] if tier == 'thorough' else [-1, 2]):
        for lm in ((None, lmask, lmask_fin) if (tier == 'thorough' or (k == 2 and not pp)) else (None,)):
          g.append(('SequenceTokenTopKAccuracy(k=%d,mv=%s,pp=%s,lm=%s)' % (k, mvs, pp, lmname(lm)),
                    (lambda k=k, mvs=mvs, pp=pp, lm=lm: m.SequenceTokenTopKAccuracy(k=k, masked_target_values=mvs, per_position=pp, logits_mask=lm)),
                    'seq', {'k': k, 'mvs': mvs, 'pp': pp, 'lm': lm}))
      for oov in ((1,), (1, 2)):
        g.append(('SequenceTokenOOVRate(oov=%s,mv=%s,pp=%s)' % (oov, mvs, pp),
                  (lambda oov=oov, mvs=mvs, pp=pp: m.SequenceTokenOOVRate(oov_target_values=oov, masked_target_values=mvs, per_position=pp)),
                  'seq', {'oov': oov, 'mvs': mvs, 'pp': pp}))
    g.append(('SequenceCrossEntropyLoss(mv=%s)' % (mvs,), (lambda mvs=mvs: m.SequenceCrossEntropyLoss(masked_target_values=mvs)), 'seq', {'mvs': mvs}))
    g.append(('SequenceTokenCount(mv=%s)' % (mvs,), (lambda mvs=mvs: m.SequenceTokenCount(masked_target_values=mvs)), 'seq', {'mvs': mvs}))
    g.append(('SequenceCount(mv=%s)' % (mvs,), (lambda mvs=mvs: m.SequenceCount(masked_target_values=mvs)), 'seq', {'mvs': mvs}))
    g.append(('SequenceLength(mv=%s)' % (mvs,), (lambda mvs=mvs: m.SequenceLength(masked_target_values=mvs)), 'seq', {'mvs': mvs}))
    for eos in (2,):
      g.append(('SequenceTruncationRate(eos=%d,mv=%s)' % (eos, mvs),
                (lambda eos=eos, mvs=mvs: m.SequenceTruncationRate(eos_target_value=eos, masked_target_values=mvs)), 'seq',
                {'eos': eos, 'mvs': mvs}))
  g.append(('ConfusionMatrix', lambda: m.ConfusionMatrix(num_classes=C), 'cls', {}))
  g.append(('PerDomain(Accuracy)', lambda: m.PerDomainMetric(m.Accuracy(), num_domains=2), 'cls', {'domains': 2}))
  g.append(('PerDomain(SequenceTokenAccuracy)', lambda: m.PerDomainMetric(m.SequenceTokenAccuracy(), num_domains=2), 'seq',
            {'domains': 2, 'mvs': (0,), 'pp': False, 'lm': None}))
  g.append(('PerDomain(CrossEntropyLoss)', lambda: m.PerDomainMetric(m.CrossEntropyLoss(), num_domains=2), 'cls', {'domains': 2}))
  # scores containing -inf (a masked class): the statistic of the selected domain may be +inf, the others must stay the zero statistic
  # (cross entropy: only the target's own score is -inf, i.e. the loss is +inf by definition; a -inf score at another class is
  #  outside the documented domain of the loss metrics -- the real code returns NaN there, see DESIGN.md)
  g.append(('PerDomain(CrossEntropyLoss)', lambda: m.PerDomainMetric(m.CrossEntropyLoss(), num_domains=2), 'cls',
            {'domains': 2, 'ninf_at': (1,), 'target_is': 1}))
  g.append(('PerDomain(Accuracy)', lambda: m.PerDomainMetric(m.Accuracy(), num_domains=2), 'cls', {'domains': 2, 'ninf_at': (C - 1,)}))
  return g


# ---- symbolic rows -------------------------------------------------------------------------------
def sym_row(kind, C, T, tag):
  if kind == 'cls':
    pred = sj.symarr('p%s' % tag, (C,))
    tgt = sj.symarr('t%s' % tag, (), 'i')
  else:
    pred = sj.symarr('p%s' % tag, (T, C))
    tgt = sj.symarr('t%s' % tag, (T,), 'i')
  dom = sj.symarr('d%s' % tag, (), 'i')
  return pred, tgt, dom


def row_domain(pred, tgt, dom, C, D=2):
  cs = []
  for t in tgt.reshape(-1):
    cs += [t >= 0, t < C]
  cs += [dom[()] >= 0, dom[()] < D]
  return cs


def eval_example(metric, row, ctx):
  pred, tgt, dom = row
  sym = (pred, tgt, dom)
  out, pcs, _, _ = sj.run_symbolic(
      lambda p, t, d: metric.evaluate_example({'y': t, 'domain_id': d}, p), jh.abstract_of(sym), sym, ctx=ctx)
  assert not pcs
  return out


def stat_fields(stat):
  """(accum, weight or None) as object arrays."""
  if hasattr(stat, 'weight'):
    return stat.accum, stat.weight
  return stat.accum, None


def as_real(e):
  if isinstance(e, sj.XR):
    return e
  if isinstance(e, (bool, np.bool_)):
    return Fraction(int(e))
  if sj.is_z(e) and z3.is_bool(e):
    return z3.If(e, z3.RealVal(1), z3.RealVal(0))
  if sj.is_z(e) and z3.is_int(e):
    return sj.int_to_real(e)
  if isinstance(e, int):
    return Fraction(e)
  return e


# ---- first-principles references (z3, not jnp) ---------------------------------------------------
def b2r(b):
  return sj.B_ite(b, Fraction(1), Fraction(0))


def ref_in_topk(pred_row, t, k, C):
  """target t (symbolic int) is among the k highest scores, ties toward the lowest index; k < 1 -> False."""
  if k < 1:
    return False
  res = False
  for tv in range(C):
    beats = [sj.B_or(sj.f_lt(pred_row[tv], pred_row[j]), sj.B_and(sj.f_eq(pred_row[j], pred_row[tv]), j < tv))
             for j in range(C) if j != tv]
    # rank < k  <=> fewer than k classes beat the target
    cnt = sum([sj.B_ite(b, 1, 0) for b in beats]) if beats else 0
    ok = (cnt < k) if sj.is_z(cnt) else (cnt < k)
    res = sj.B_or(res, sj.B_and(t == tv, ok))
  return res


def ref_argmax_is(pred_row, t, C):
  return ref_in_topk(pred_row, t, 1, C)


def ref_argmax(pred_row, C):
  """index of the first maximum as an Int term."""
  res = C - 1
  for tv in range(C - 2, -1, -1):
    is_first_max = sj.B_and(*[sj.B_or(sj.f_lt(pred_row[j], pred_row[tv]), sj.B_and(sj.f_eq(pred_row[j], pred_row[tv]), j > tv))
                              for j in range(C) if j != tv])
    res = sj.B_ite(is_first_max, tv, res)
  return res


def ref_xent(ctx, pred_row, t, C):
  """-log softmax(pred)[t] in its shifted textbook form  -( (p_t - c) - log sum_j exp(p_j - c) ),  c = max_j p_j."""
  c = pred_row[0]
  for j in range(1, C):
    c = sj.f_select(sj.f_lt(c, pred_row[j]), pred_row[j], c)
  s = Fraction(0)
  for j in range(C):
    s = sj.f_add(s, ctx.trans('exp', sj.f_sub(pred_row[j], c)))
  lse = ctx.trans('log', s)
  pt = pred_row[C - 1]
  for tv in range(C - 2, -1, -1):
    pt = sj.f_select(t == tv, pred_row[tv], pt)
  return sj.f_neg(sj.f_sub(sj.f_sub(pt, c), lse))


def ref_weight(t, mvs):
  return sj.B_and(*[t != mv for mv in mvs]) if mvs else True


def apply_lm(pred_row, lm):
  if lm is None:
    return list(pred_row)
  return [sj.f_add(p, sj.NINF if v == NINF else Fraction(v)) for p, v in zip(pred_row, lm)]


def reference_stat(name, info, kind, row, C, T, ctx):
  """Returns (accum, weight) object arrays (weight None for SumStat) from first principles."""
  pred, tgt, dom = row
  base = name.split('(')[0]
  if base == 'PerDomain':
    inner = name[len('PerDomain('):-1]
    a, w = reference_stat(inner, dict(info), kind, row, C, T, ctx)
    D = info['domains']
    A = np.empty((D,) + a.shape, dtype=object)
    W = np.empty((D,) + a.shape, dtype=object) if w is not None else None
    for d in range(D):
      for idx in np.ndindex(*a.shape):
        A[(d,) + idx] = sj.f_select(dom[()] == d, as_real(a[idx]), Fraction(0))
        if w is not None:
          W[(d,) + idx] = sj.f_select(dom[()] == d, as_real(w[idx]), Fraction(0))
    return A, W

  def scalar(v):
    o = np.empty((), dtype=object)
    o[()] = v
    return o
  if kind == 'cls':
    t = tgt[()]
    pr = [pred[j] for j in range(C)]
    if base == 'CrossEntropyLoss':
      return scalar(ref_xent(ctx, pr, t, C)), scalar(Fraction(1))
    if base == 'Accuracy':
      return scalar(b2r(ref_argmax_is(pr, t, C))), scalar(Fraction(1))
    if base == 'TopKAccuracy':
      return scalar(b2r(ref_in_topk(pr, t, info['k'], C))), scalar(Fraction(1))
    if base == 'ConfusionMatrix':
      am = ref_argmax(pr, C)
      A = np.empty((C, C), dtype=object)
      for i in range(C):
        for j in range(C):
          A[i, j] = b2r(sj.B_and(t == i, sj.zr(am) == j if sj.is_z(am) else am == j))
      return A, None
    raise KeyError(name)
  mvs = info.get('mvs', (0,))
  ws = [ref_weight(tgt[i], mvs) for i in range(T)]
  wr = [b2r(w) for w in ws]
  anyw = sj.B_or(*ws)
  rows = [[pred[i, j] for j in range(C)] for i in range(T)]
  pp = info.get('pp', False)

  def tokenwise(vals):
    if pp:
      A = np.empty((T,), dtype=object)
      W = np.empty((T,), dtype=object)
      for i in range(T):
        A[i] = sj.f_select(ws[i], vals[i], Fraction(0))
        W[i] = wr[i]
      return A, W
    acc = Fraction(0)
    for i in range(T):
      acc = sj.f_add(acc, sj.f_select(ws[i], vals[i], Fraction(0)))
    tot = Fraction(0)
    for i in range(T):
      tot = sj.f_add(tot, wr[i])
    return scalar(acc), scalar(tot)
  if base == 'SequenceTokenCrossEntropyLoss':
    return tokenwise([ref_xent(ctx, rows[i], tgt[i], C) for i in range(T)])
  if base == 'SequenceCrossEntropyLoss':
    acc = Fraction(0)
    for i in range(T):
      acc = sj.f_add(acc, sj.f_select(ws[i], ref_xent(ctx, rows[i], tgt[i], C), Fraction(0)))
    return scalar(acc), scalar(b2r(anyw))
  if base == 'SequenceTokenAccuracy':
    return tokenwise([b2r(ref_argmax_is(apply_lm(rows[i], info.get('lm')), tgt[i], C)) for i in range(T)])
  if base == 'SequenceTokenTopKAccuracy':
    return tokenwise([b2r(ref_in_topk(apply_lm(rows[i], info.get('lm')), tgt[i], info['k'], C)) for i in range(T)])
  if base == 'SequenceTokenOOVRate':
    return tokenwise([b2r(sj.B_or(*[tgt[i] == v for v in info['oov']])) for i in range(T)])
  if base == 'SequenceTokenCount':
    tot = Fraction(0)
    for i in range(T):
      tot = sj.f_add(tot, wr[i])
    return scalar(tot), None
  if base == 'SequenceCount':
    return scalar(b2r(anyw)), None
  if base == 'SequenceLength':
    tot = Fraction(0)
    for i in range(T):
      tot = sj.f_add(tot, wr[i])
    return scalar(tot), scalar(b2r(anyw))
  if base == 'SequenceTruncationRate':
    trunc = sj.B_and(*[tgt[i] != info['eos'] for i in range(T)])
    return scalar(b2r(sj.B_and(trunc, anyw))), scalar(b2r(anyw))
  raise KeyError(name)


def sanitize_mean(a, w):
  """MeanStat domain: weight <= 0 -> (0, 0)."""
  A, W = np.empty(a.shape, dtype=object), np.empty(a.shape, dtype=object)
  for idx in np.ndindex(*a.shape):
    wz = sj.f_le(as_real(w[idx]), Fraction(0))
    W[idx] = sj.f_select(wz, Fraction(0), as_real(w[idx]))
    A[idx] = sj.f_select(wz, Fraction(0), as_real(a[idx]))
  return A, W


def result_of(a, w):
  if w is None:
    return a
  R = np.empty(a.shape, dtype=object)
  for idx in np.ndindex(*a.shape):
    wz = sj.f_eq(as_real(w[idx]), Fraction(0))
    R[idx] = sj.f_select(wz, Fraction(0), sj.f_div(as_real(a[idx]), sj.f_select(wz, Fraction(1), as_real(w[idx]))))
  return R
