"""C10: a training round is a pure function of (server state, clients) (Engine J + IR dataflow)."""
import json

import numpy as np
import z3

import jax
import jax.numpy as jnp
from jax.extend import core as jcore

from .. import symjx as sj
from .. import jh
from .. import ufs
from .c01 import replay_subprocess, offsets, D

LEVEL = 'model_checking'
SIZES = [2, 1]


def _fx():
  import fedjax
  from fedjax.core import client_datasets, optimizers, models
  from fedjax.algorithms import fed_avg, fed_prox, mime, mime_lite, agnostic_fed_avg, hyp_cluster, apfl
  from fedjax.aggregators import compression
  return dict(cds=client_datasets, o=optimizers, models=models, fed_avg=fed_avg, fed_prox=fed_prox, mime=mime,
              mime_lite=mime_lite, agnostic=agnostic_fed_avg, hyp=hyp_cluster, apfl=apfl, comp=compression)


def pel_of(X, y):
  def pel(params, batch, rng):
    idx = batch['idx']
    return (X[idx] @ params['w'] + params['b'] - y[idx]) ** 2
  return pel


def hp():
  return _fx()['cds'].ShuffleRepeatBatchHParams(batch_size=2, num_epochs=1, seed=0)


def pad():
  return _fx()['cds'].PaddedBatchHParams(batch_size=2)


ALGS = ['fed_avg', 'fed_prox', 'mime', 'mime_lite', 'agnostic', 'hyp_cluster', 'apfl']
AGGS = ['uniform', 'rotated_uniform', 'drive', 'terngrad']


def build(name, X, y, Dm):
  """(algorithm, constructor of the initial state from params)."""
  F = _fx()
  o = F['o']
  pel0 = pel_of(X, y)
  co, so = o.sgd(0.5, momentum=0.5), o.sgd(1.0, momentum=0.5)
  if name == 'fed_avg':
    return F['fed_avg'].federated_averaging(F['models'].grad(pel0), co, so, hp())
  if name == 'fed_prox':
    return F['fed_prox'].fed_prox(pel0, co, so, hp(), proximal_weight=0.25)
  if name == 'mime':
    return F['mime'].mime(pel0, o.sgd(0.5, momentum=0.5), hp(), pad(), server_learning_rate=0.5)
  if name == 'mime_lite':
    return F['mime_lite'].mime_lite(pel0, o.sgd(0.5, momentum=0.5), hp(), pad(), server_learning_rate=0.5)
  if name == 'agnostic':
    return F['agnostic'].agnostic_federated_averaging(pel0, o.sgd(0.5), so, hp(), pad(), init_domain_weights=[0.5, 0.5],
                                                      domain_learning_rate=0.5, domain_window_size=2)
  if name == 'hyp_cluster':
    return F['hyp'].hyp_cluster(pel0, o.sgd(0.5), so, pad(), hp())
  if name == 'apfl':
    return F['apfl'].adaptive_personalized_federated_learning(F['models'].grad(pel0), o.sgd(0.5), so, hp(), client_coefficient=0.5)
  raise KeyError(name)


def init_state(name, alg, w, b):
  if name == 'hyp_cluster':
    return alg.init([{'w': w, 'b': b}, {'w': w * 0.5, 'b': b + 1.0}])
  return alg.init({'w': w, 'b': b})


def make_clients(Dm, keys, concrete=False):
  cds = _fx()['cds']
  out = []
  for i, (o_, n) in enumerate(zip(offsets(SIZES), SIZES)):
    idx = np.arange(o_, o_ + n, dtype=np.int32)
    feats = {'idx': idx, 'domain_id': np.asarray(Dm)[idx].astype(np.int32)}
    out.append((b'c%02d' % i, cds.ClientDataset(feats), keys[i]))
  return out


DOMS = np.asarray([0, 1, 0], np.int32)   # concrete domain ids (agnostic); values stay symbolic


def snapshot(tree):
  """Structure + identity of every container and leaf reachable from the state."""
  out = []

  def walk(x, path):
    if isinstance(x, dict):
      out.append((path, 'dict', tuple(sorted(map(repr, x.keys())))))
      for k in x:
        walk(x[k], path + (repr(k),))
    elif isinstance(x, (list, tuple)) and not hasattr(x, '_fields'):
      out.append((path, type(x).__name__, len(x)))
      for i, v in enumerate(x):
        walk(v, path + (i,))
    elif hasattr(x, '__dataclass_fields__'):
      out.append((path, type(x).__name__, tuple(x.__dataclass_fields__)))
      for f in x.__dataclass_fields__:
        walk(getattr(x, f), path + (f,))
    elif hasattr(x, '_fields'):   # namedtuple (optax states)
      out.append((path, type(x).__name__, tuple(x._fields)))
      for f in x._fields:
        walk(getattr(x, f), path + (f,))
    else:
      out.append((path, 'leaf', id(x)))
  walk(tree, ())
  return out


def code_fn(name, record):
  def fn(w, b, X, y, keys):
    alg = build(name, X, y, DOMS)
    s0 = init_state(name, alg, w, b)
    all_clients = make_clients(DOMS, keys)
    clients = all_clients[:1]                  # round 1: only the first client ...
    before = snapshot(s0)
    s1, d1 = alg.apply(s0, clients)
    record['mutated_by_first_call'] = diff_snap(before, snapshot(s0))
    s1b, d1b = alg.apply(s0, clients)          # same argument objects again
    before1 = snapshot(s1)
    s2, d2 = alg.apply(s1, all_clients)        # ... round 2: repeated participation plus a first-time participant
    record['mutated_by_third_call'] = diff_snap(before1, snapshot(s1))
    s2b, d2b = alg.apply(s1, all_clients)
    fresh = build(name, X, y, DOMS)            # a fresh algorithm object must agree: no state hidden in the object
    s2f, d2f = fresh.apply(s1, all_clients)
    return {'first': (s1, _diag(d1)), 'again': (s1b, _diag(d1b)), 'third': (s2, _diag(d2)), 'third_again': (s2b, _diag(d2b)),
            'third_fresh': (s2f, _diag(d2f))}
  return fn


def _diag(d):
  return {k.decode() if isinstance(k, bytes) else str(k): v for k, v in sorted(d.items())}


def diff_snap(a, b):
  if a == b:
    return []
  sa, sb = dict((p, (k, v)) for p, k, v in a), dict((p, (k, v)) for p, k, v in b)
  out = []
  for p in sorted(set(sa) | set(sb), key=repr):
    if sa.get(p) != sb.get(p):
      out.append('%s: %s -> %s' % (p, sa.get(p, ('absent',))[0:2] if sa.get(p, (None,))[0] != 'leaf' else 'leaf', sb.get(p, ('absent',))[0:2] if sb.get(p, (None,))[0] != 'leaf' else 'another leaf'))
  return out[:6]


def sym_inputs():
  N = sum(SIZES)
  return (sj.symarr('w', (D,)), sj.symarr('b', ()), sj.symarr('X', (N, D)), sj.symarr('y', (N,)), sj.rawkeyarr('k', (len(SIZES),)))


def run_alg(run, name, timeout):
  h = jh.Harness(run, name, timeout)
  sym = sym_inputs()
  record = {}
  real_dg = jax.device_get
  jax.device_get = lambda x: x
  viol = []
  try:
    paths = 0
    for out, pcs, ctx, script in sj.explore(code_fn(name, record), jh.abstract_of(sym), sym, index_domain=[0, 1], max_paths=300, max_depth=40):
      st, _ = sj.check_sat(list(pcs) + ctx.all_facts(), timeout)
      if st == 'unsat':
        continue
      paths += 1
      goals = [('argument-state-structure-unchanged(1st call)%s' % (paths,), not record['mutated_by_first_call']),
               ('argument-state-structure-unchanged(3rd call)%s' % (paths,), not record['mutated_by_third_call'])]
      for a_key, b_key in (('first', 'again'), ('third', 'third_again'), ('third', 'third_fresh')):
        la, lb = jh.flat_with_paths(out[a_key]), jh.flat_with_paths(out[b_key])
        if [p for p, _ in la] != [p for p, _ in lb]:
          goals.append(('%s-vs-%s structure' % (a_key, b_key), False))
          continue
        for (p, a), (_, b_) in zip(la, lb):
          if a.shape != b_.shape:
            goals.append(('%s%s shape' % (a_key, p), False))
            continue
          for idx in np.ndindex(*a.shape):
            goals.append(('%s==%s%s%s#%d' % (a_key, b_key, p, list(idx), paths), sj.same(a[idx], b_[idx])))
      bad = h.prove_all('pure', ctx, list(pcs), goals)
      viol += [(g, m, record.get('mutated_by_first_call') or record.get('mutated_by_third_call')) for g, m in bad]
      if paths >= (4 if run.tier == 'quick' else 16):
        break
    run.witness(name + ':reach', 'reach', paths > 0, '%d feasible paths' % paths)
  except Exception as e:   # pylint: disable=broad-except
    if jh.engine_fault(e):      # the engine cannot carry this state: this algorithm is inconclusive, the others and the concrete clauses still run
      run.ob(name + ':trace', 'error', detail=repr(e)[:300])
    else:
      run.ob(name + ':raises', 'sat', detail=repr(e)[:300])
      viol.append(('raises %r' % (e,), None, None))
  finally:
    jax.device_get = real_dg
  # donation dataflow on the IR traced with jit enabled + concrete confirmation
  don = donation_scan_alg(name)
  run.ob(name + ':donation-dataflow', 'sat' if don else 'unsat', detail=don[:3] if don else None, nontrivial=True)
  if don:
    viol.append(('donation: ' + don[0], None, None))
  if viol:
    g, model, mut = viol[0]
    data = {'kind': 'alg', 'name': name}
    ok, msg = replay_subprocess('C10', data)
    run.violation('%s:%s' % (name, 'mutates-argument' if mut else ('donation' if g.startswith('donation') else 'impure')),
                  '%s round is not a pure function of its arguments (%s%s): %s' % (name, g[:120], '; argument changed: %s' % mut if mut else '', msg), data, ok)


def donation_scan_alg(name):
  """Trace one round with jit ENABLED and look at donated_invars of the top-level jit calls."""
  N = sum(SIZES)
  rng = np.random.RandomState(0)
  X, y = jnp.asarray(rng.randn(N, D), jnp.float32), jnp.asarray(rng.randn(N), jnp.float32)
  alg = build(name, X, y, DOMS)
  s0 = init_state(name, alg, jnp.ones(D), jnp.zeros(()))
  keys = jax.random.split(jax.random.PRNGKey(0), len(SIZES))
  clients = make_clients(DOMS, keys)
  s0, _ = alg.apply(s0, clients)      # a reachable state with non-trivial optimizer slots
  leaves, tree = jax.tree_util.tree_flatten(s0)
  arr_pos = [i for i, l in enumerate(leaves) if hasattr(l, 'shape')]

  def fn(*arrs):
    ls = list(leaves)
    for i, a in zip(arr_pos, arrs):
      ls[i] = a
    st = jax.tree_util.tree_unflatten(tree, ls)
    new, diag = alg.apply(st, clients)
    return jax.tree_util.tree_leaves(new)
  real_dg = jax.device_get
  jax.device_get = lambda x: x
  try:
    closed = jax.make_jaxpr(fn)(*[leaves[i] for i in arr_pos])
  except Exception as e:   # tracing with jit enabled needs concrete cluster ids etc.: fall back to the concrete check only
    return []
  finally:
    jax.device_get = real_dg
  jp = closed.jaxpr
  invars = set(jp.invars)
  problems = []
  for i, eqn in enumerate(jp.eqns):
    don = eqn.params.get('donated_invars')
    if not don:
      continue
    for v, d in zip(eqn.invars, don):
      if d and not isinstance(v, jcore.Literal) and v in invars:
        problems.append('top-level jit call %s donates a leaf of the caller\'s server state' % eqn.params.get('name', eqn.primitive.name))
  for o in jp.outvars:
    if o in invars:
      pass   # returning an unchanged leaf of the input state in the new state is fine (immutable arrays)
  return problems


def concrete_purity(name):
  """Concrete confirmation on the real code (jit on): state readable and unchanged after apply; second call identical."""
  N = sum(SIZES)
  rng = np.random.RandomState(0)
  X, y = jnp.asarray(rng.randn(N, D)), jnp.asarray(rng.randn(N))
  alg = build(name, X, y, DOMS)
  s0 = init_state(name, alg, jnp.ones(D), jnp.zeros(()))
  keys = jax.random.split(jax.random.PRNGKey(0), len(SIZES))
  clients = make_clients(DOMS, keys)
  msgs = []
  state = s0
  all_clients = clients
  for rnd in range(2):
    clients = all_clients[:1] if rnd == 0 else all_clients
    before_struct = jax.tree_util.tree_structure(state)
    before_vals = [np.asarray(l).copy() if hasattr(l, 'shape') else l for l in jax.tree_util.tree_leaves(state)]
    out1, d1 = alg.apply(state, clients)
    try:
      after_struct = jax.tree_util.tree_structure(state)
      after_vals = [np.asarray(l).copy() if hasattr(l, 'shape') else l for l in jax.tree_util.tree_leaves(state)]
    except RuntimeError as e:
      return True, 'round %d: argument state no longer readable after apply: %s' % (rnd + 1, str(e).split('\n')[0][:120])
    if before_struct != after_struct:
      msgs.append('round %d: argument state structure changed: %s -> %s' % (rnd + 1, before_struct, after_struct))
    elif any(not np.array_equal(np.asarray(a), np.asarray(b)) for a, b in zip(before_vals, after_vals)):
      msgs.append('round %d: argument state values changed in place' % (rnd + 1))
    try:
      out2, d2 = alg.apply(state, clients)
      d, where = jh.max_discrepancy((out1, _diag(d1)), (out2, _diag(d2)))
      if jax.tree_util.tree_structure(out1) != jax.tree_util.tree_structure(out2) or d > 0:
        msgs.append('round %d: a second identical call returns a different result (%s)' % (rnd + 1, where))
    except RuntimeError as e:
      msgs.append('round %d: second call with the same state fails: %s' % (rnd + 1, str(e).split('\n')[0][:120]))
    out3, d3 = build(name, X, y, DOMS).apply(state, clients)
    d, where = jh.max_discrepancy((out1, _diag(d1)), (out3, _diag(d3)))
    if d > 0:
      msgs.append('round %d: a fresh algorithm object gives a different result (state hidden in the object): %s' % (rnd + 1, where))
    state = out1
  return bool(msgs), '; '.join(msgs[:3]) or 'pure on the concrete run'


def concrete_pickle_continue(name):
  """Auxiliary concrete clause: serialise a reachable state with the real save_state/load_state and continue from the
  restored copy; the subsequent states must equal those obtained from the original (values, dtypes, weak types)."""
  import tempfile, shutil
  from fedjax.core import serialization
  N = sum(SIZES)
  rng = np.random.RandomState(0)
  X, y = jnp.asarray(rng.randn(N, D), jnp.float32), jnp.asarray(rng.randn(N), jnp.float32)
  alg = build(name, X, y, DOMS)
  s0 = init_state(name, alg, jnp.ones(D, jnp.float32), jnp.zeros((), jnp.float32))
  keys = jax.random.split(jax.random.PRNGKey(0), len(SIZES))
  clients = make_clients(DOMS, keys)
  s1, _ = alg.apply(s0, clients)
  tmp = tempfile.mkdtemp(prefix='vf_c10_')
  try:
    serialization.save_state(s1, tmp + '/state')
    r1 = serialization.load_state(tmp + '/state')
  except Exception as e:   # pylint: disable=broad-except
    return True, 'a state reached after one round cannot be serialised/restored: %s: %s' % (type(e).__name__, str(e)[:120])
  finally:
    shutil.rmtree(tmp, ignore_errors=True)
  msgs = []
  la, lb = jax.tree_util.tree_leaves(s1), jax.tree_util.tree_leaves(r1)
  if jax.tree_util.tree_structure(s1) != jax.tree_util.tree_structure(r1):
    msgs.append('restored state has a different structure')
  else:
    for a, b_ in zip(la, lb):
      if hasattr(a, 'dtype') and (np.asarray(a).dtype != np.asarray(b_).dtype or not np.array_equal(np.asarray(a), np.asarray(b_)) or
                                 getattr(a, 'weak_type', False) != getattr(b_, 'weak_type', False)):
        msgs.append('restored leaf differs: %s/%s weak=%s vs %s/%s weak=%s' % (a.dtype, np.asarray(a).tolist(), getattr(a, 'weak_type', None),
                                                                            getattr(b_, 'dtype', None), np.asarray(b_).tolist(), getattr(b_, 'weak_type', None)))
    a2, _ = alg.apply(s1, clients)
    b2, _ = alg.apply(r1, clients)
    d, where = jh.max_discrepancy(a2, b2)
    if d > 0 or [np.asarray(l).dtype for l in jax.tree_util.tree_leaves(a2)] != [np.asarray(l).dtype for l in jax.tree_util.tree_leaves(b2)]:
      msgs.append('continuing from the restored state differs: %s' % where)
  return bool(msgs), '; '.join(msgs[:2]) or 'restored state continues identically'


def concrete_apfl_eval_purity():
  """Evaluating (also never-seen) clients with APFL's eval function must not touch the server state."""
  F = _fx()
  from fedjax.core import metrics
  N = sum(SIZES)
  rng = np.random.RandomState(0)
  X, y = jnp.asarray(rng.randn(N, D), jnp.float32), jnp.asarray(rng.randn(N), jnp.float32)
  alg = build('apfl', X, y, DOMS)
  s0 = init_state('apfl', alg, jnp.ones(D, jnp.float32), jnp.zeros((), jnp.float32))
  keys = jax.random.split(jax.random.PRNGKey(0), len(SIZES))
  clients = make_clients(DOMS, keys)
  s1, _ = alg.apply(s0, clients[:1])
  model = F['models'].Model(init=lambda r: None, apply_for_train=None,
                            apply_for_eval=lambda p, bt: jnp.stack([X[bt['idx']] @ p['w'] + p['b'], -(X[bt['idx']] @ p['w'] + p['b'])], axis=-1),
                            train_loss=None, eval_metrics={'acc': metrics.Accuracy(target_key='domain_id')})
  ev = F['apfl'].eval_adaptive_personalized_federated_learning(model, pad())
  before = sorted(s1.client_states)
  snap = snapshot(s1)
  list(ev(s1, [(cid, ds) for cid, ds, _ in clients]))
  after = sorted(s1.client_states)
  if before != after or diff_snap(snap, snapshot(s1)):
    return True, 'evaluating clients changed the server state: client_states keys %s -> %s' % (before, after)
  return False, 'eval leaves the state untouched'


def concrete_pickle_weak_types():
  """A state with a bfloat16 leaf and a weakly typed scalar restores with the same dtypes / weak types, so that the next
  (dtype-promoting) step computes the same values."""
  import tempfile, shutil
  from fedjax.core import serialization
  st = {'w': jnp.asarray([0.5, -1.25, 3.0], jnp.bfloat16), 'lr': jnp.asarray(0.3), 'n': jnp.asarray(3)}
  tmp = tempfile.mkdtemp(prefix='vf_c10_')
  try:
    serialization.save_state(st, tmp + '/s')
    rs = serialization.load_state(tmp + '/s')
  finally:
    shutil.rmtree(tmp, ignore_errors=True)
  msgs = []
  step = lambda s: {'w': s['w'] - s['lr'] * s['w'] * s['n'], 'lr': s['lr'], 'n': s['n']}
  a, b_ = step(st), step(rs)
  for k in st:
    if jnp.asarray(st[k]).dtype != jnp.asarray(rs[k]).dtype or getattr(st[k], 'weak_type', None) != getattr(rs[k], 'weak_type', None):
      msgs.append('leaf %r restored as %s weak=%s (saved %s weak=%s)' % (k, jnp.asarray(rs[k]).dtype, getattr(rs[k], 'weak_type', None), jnp.asarray(st[k]).dtype, getattr(st[k], 'weak_type', None)))
    if jnp.asarray(a[k]).dtype != jnp.asarray(b_[k]).dtype or not np.array_equal(np.asarray(a[k], np.float64), np.asarray(b_[k], np.float64)):
      msgs.append('continuing from the restored state: leaf %r %s %s vs %s %s' % (k, jnp.asarray(b_[k]).dtype, np.asarray(b_[k], np.float64).tolist(), jnp.asarray(a[k]).dtype, np.asarray(a[k], np.float64).tolist()))
  return bool(msgs), '; '.join(msgs[:2]) or 'weak types and dtypes survive'


# ---- compression aggregators ------------------------------------------------------------------------
def agg_build(name, key, encode=None):
  c = _fx()['comp']
  if name == 'uniform':
    return c.uniform_stochastic_quantizer(3, key, encode)
  if name == 'rotated_uniform':
    return c.rotated_uniform_stochastic_quantizer(3, key)
  if name == 'drive':
    return c.structured_drive_quantizer(key)
  if name == 'terngrad':
    return c.terngrad_quantizer(key)
  raise KeyError(name)


def agg_code(name):
  def fn(p0, p1, key):
    agg = agg_build(name, key)
    st0 = agg.init()
    cl = [(b'a', {'w': p0}, 2.0), (b'b', {'w': p1}, 1.0)]
    o1, s1 = agg.apply(cl, st0)
    o1b, s1b = agg.apply(cl, st0)
    o2, s2 = agg.apply(cl, s1)
    o2b, s2b = agg.apply(cl, s1)
    return {'first': (o1, s1.num_bits, s1.rng), 'again': (o1b, s1b.num_bits, s1b.rng), 'second': (o2, s2.num_bits, s2.rng),
            'second_again': (o2b, s2b.num_bits, s2b.rng), 'rng0': st0.rng}
  return fn


def run_agg(run, name, timeout):
  h = jh.Harness(run, 'agg:' + name, timeout)
  sym = (sj.symarr('p', (2,)), sj.symarr('q', (2,)), sj.rawkeyarr('k'))
  ctx = sj.Ctx()
  viol = []
  try:
    out, pcs, _, _ = sj.run_symbolic(agg_code(name), jh.abstract_of(sym), sym, ctx=ctx)
    goals = []
    for a_key, b_key in (('first', 'again'), ('second', 'second_again')):
      for (p, a), (_, b_) in zip(jh.flat_with_paths(out[a_key]), jh.flat_with_paths(out[b_key])):
        for idx in np.ndindex(*a.shape):
          x, y_ = a[idx], b_[idx]
          eq = (x.key == y_.key and x.i == y_.i) if isinstance(x, sj.RawKey) else sj.same(x, y_)
          goals.append(('%s==%s%s%s' % (a_key, b_key, p, list(idx)), eq))
    # the key advances: new state's key term differs from the old one, and round 2 uses fresh randomness
    k0, k1, k2 = out['rng0'].reshape(-1)[0], out['first'][2].reshape(-1)[0], out['second'][2].reshape(-1)[0]
    goals.append(('key-advances', k0.key != k1.key and k1.key != k2.key and k0.key != k2.key))
    viol = h.prove_all('pure', ctx, list(pcs), goals, abstract_noise=False)
  except Exception as e:   # pylint: disable=broad-except
    if jh.engine_fault(e):
      raise
    run.ob('agg:%s:raises' % name, 'sat', detail=repr(e)[:300])
    viol = [('raises %r' % (e,), None)]
  if viol:
    data = {'kind': 'agg', 'name': name}
    ok, msg = replay_subprocess('C10', data)
    run.violation('agg:%s' % name, 'compression aggregator %s is not a pure function of (clients, state): %s: %s' % (name, viol[0][0][:100], msg), data, ok)


def concrete_agg_purity(name, encode=None):
  key = jax.random.PRNGKey(3)
  agg = agg_build(name, key, encode) if name == 'uniform' else agg_build(name, key)
  st0 = agg.init()
  rng = np.random.RandomState(0)
  rounds = [[(b'a', {'w': jnp.asarray(rng.randn(5))}, 2.0), (b'b', {'w': jnp.asarray(rng.randn(5))}, 1.0)],
            [(b'a', {'w': jnp.asarray(rng.randn(5) * 7)}, 1.0)]]
  msgs = []
  st = st0
  for r, cl in enumerate(rounds):
    o1, s1 = agg.apply(cl, st)
    o2, s2 = agg.apply(cl, st)
    d, where = jh.max_discrepancy((o1, s1.num_bits), (o2, s2.num_bits))
    if d > 0 or not np.array_equal(np.asarray(s1.rng), np.asarray(s2.rng)):
      msgs.append('round %d: identical call returns different result (%s)' % (r + 1, where))
    # a fresh aggregator object continuing from the same state must agree too (no hidden state in the object)
    agg2 = agg_build(name, key, encode) if name == 'uniform' else agg_build(name, key)
    o3, s3 = agg2.apply(cl, st)
    d, where = jh.max_discrepancy((o1, s1.num_bits), (o3, s3.num_bits))
    if d > 0:
      msgs.append('round %d: result depends on the history of the aggregator object, not only on (clients, state): %s' % (r + 1, where))
    st = s1
  return bool(msgs), '; '.join(msgs[:2]) or 'pure on the concrete run'


def replay(data):
  if data['kind'] == 'alg':
    return concrete_purity(data['name'])
  if data['kind'] == 'pickle':
    return concrete_pickle_continue(data['name'])
  if data['kind'] == 'pickle_weak':
    return concrete_pickle_weak_types()
  if data['kind'] == 'apfl_eval':
    return concrete_apfl_eval_purity()
  return concrete_agg_purity(data['name'], data.get('encode'))


def check(run):
  timeout = 20.0 if run.tier == 'quick' else 120.0
  run.functions += ['FederatedAlgorithm.apply of fed_avg, fed_prox, mime, mime_lite, agnostic_fed_avg, hyp_cluster, apfl',
                    'compression aggregators: uniform, rotated uniform, DRIVE, TernGrad (apply)', 'for_each_client jit backend', 'optimizers']
  run.trusted += ['z3', 'vf/symjx.py interpreter', 'donated_invars of the traced IR (jit enabled) + concrete is_deleted()/value confirmation',
                  'jax.device_get modelled as identity while tracing']
  run.assumptions += ['"same arguments" = the same Python objects passed twice within one symbolic execution',
                      'serialise-and-continue clause: pickle is C-level, so it is exercised only by an auxiliary CONCRETE run (real save_state/load_state, '
                      'one reachable state per algorithm); its structural part follows from outputs depending only on leaf values',
                      "encode_algorithm='arithmetic' (jnp.unique, data-dependent shapes) is outside the symbolic engine: covered only by the "
                      'auxiliary concrete double-call run']
  run.bounds = {'clients': SIZES, 'rounds': 2, 'calls per state': 2, 'algorithms': ALGS, 'aggregators': AGGS}
  for name in ALGS:
    run_alg(run, name, timeout)
  for name in AGGS:
    run_agg(run, name, timeout)
  # auxiliary concrete determinism runs (jit enabled, real arrays): hidden state outside the server/aggregator state
  for name in ALGS:
    bad, msg = concrete_purity(name)
    run.ob('concrete-double-call:' + name, 'sat' if bad else 'unsat', detail=msg if bad else None, nontrivial=False)
    if bad and not any(v['key'].startswith(name + ':') for v in run.violations):
      run.violation('%s:concrete' % name, '%s: %s' % (name, msg), {'kind': 'alg', 'name': name}, True)
  for name in ALGS:
    bad, msg = concrete_pickle_continue(name)
    run.ob('aux-concrete:serialise-and-continue:' + name, 'sat' if bad else 'unsat', detail=msg if bad else None, nontrivial=False)
    if bad:
      run.violation('%s:pickle-continue' % name, '%s: %s' % (name, msg), {'kind': 'pickle', 'name': name}, True)
  bad, msg = concrete_apfl_eval_purity()
  run.ob('aux-concrete:apfl-eval-leaves-state-untouched', 'sat' if bad else 'unsat', detail=msg if bad else None, nontrivial=False)
  if bad:
    run.violation('apfl:eval-mutates-state', 'APFL eval function: %s' % msg, {'kind': 'apfl_eval'}, True)
  bad, msg = concrete_pickle_weak_types()
  run.ob('aux-concrete:serialise-and-continue:weak-types', 'sat' if bad else 'unsat', detail=msg if bad else None, nontrivial=False)
  if bad:
    run.violation('pickle-weak-types', 'save_state/load_state: %s' % msg, {'kind': 'pickle_weak'}, True)
  for name, enc in [(n, None) for n in AGGS] + [('uniform', 'arithmetic')]:
    bad, msg = concrete_agg_purity(name, enc)
    run.ob('concrete-double-call:agg:%s:%s' % (name, enc), 'sat' if bad else 'unsat', detail=msg if bad else None, nontrivial=False)
    if bad:
      run.violation('agg:%s:%s:concrete' % (name, enc), 'aggregator %s(encode=%s): %s' % (name, enc, msg), {'kind': 'agg', 'name': name, 'encode': enc}, True)
