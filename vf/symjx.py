"""Engine J: symbolic execution of JAX code through its IR (jaxpr -> SMT terms).

Arrays are numpy object arrays.  Elements are exact Python numbers (Fraction/int/bool),
z3 terms (Real/Int/Bool), `XR` extended reals (value + nan/+inf/-inf flags), `KeyT` PRNG
key terms of a free algebra, or `Bits` raw random bits awaiting the uniform pattern.
"""
import itertools
import math
from fractions import Fraction

import numpy as np
import z3

import jax
import jax.numpy as jnp
from jax.extend import core as jcore
from jax._src import core as jsrc_core


class Unsupported(Exception):
  pass


# --------------------------------------------------------------------------------------
# scalars
# --------------------------------------------------------------------------------------
def is_z(x):
  return isinstance(x, z3.ExprRef)


def is_sym(a):
  return isinstance(a, np.ndarray) and a.dtype == object


def simplest(v, dtype=np.float32):
  """Simplest rational inside the rounding interval of float v in dtype (Stern-Brocot)."""
  v = float(v)
  if v == 0:
    return Fraction(0)
  if math.isinf(v) or math.isnan(v):
    raise ValueError
  dt = np.dtype(dtype)
  if dt.kind != 'f':
    dt = np.dtype(np.float32)
  ulp = abs(float(np.spacing(np.asarray(v, dtype=dt))))
  if not math.isfinite(ulp):      # largest finite float
    ulp = abs(v) * 2.0 ** -23
  lo, hi = Fraction(v) - Fraction(ulp) / 2, Fraction(v) + Fraction(ulp) / 2

  def sb(lo, hi):
    fl = math.floor(lo)
    if fl == lo:
      return Fraction(fl)
    if fl + 1 <= hi:
      return Fraction(fl + 1)
    return fl + 1 / sb(1 / (hi - fl), 1 / (lo - fl))
  if lo > 0:
    return sb(lo, hi)
  if hi < 0:
    return -sb(-hi, -lo)
  return Fraction(0)


NUMERIC_MODE = [False]   # set while a numeric (validation) interpretation runs: no algebraic constants


def deround(v, dtype=np.float32):
  """Real-number reading of a float constant: simplest rational in its rounding interval, or -- when that
  rational is complicated but the square of the interval contains a simple rational q -- the algebraic number
  sqrt(q) (constants such as 1/sqrt(d))."""
  r = simplest(v, dtype)
  if NUMERIC_MODE[0] or r.denominator <= 64:
    return r
  dt = np.dtype(dtype) if np.dtype(dtype).kind == 'f' else np.dtype(np.float32)
  ulp = abs(float(np.spacing(np.asarray(abs(float(v)), dtype=dt))))
  a = abs(Fraction(float(v)))
  lo, hi = (a - Fraction(ulp) / 2) ** 2, (a + Fraction(ulp) / 2) ** 2
  fl = math.floor(lo)

  def sb(lo, hi):
    fl = math.floor(lo)
    if fl == lo:
      return Fraction(fl)
    if fl + 1 <= hi:
      return Fraction(fl + 1)
    return fl + 1 / sb(1 / (hi - fl), 1 / (lo - fl))
  q = sb(lo, hi)
  if NUMERIC_MODE[0]:
    return r
  if q.denominator * max(1, abs(q.numerator)) * 64 < r.denominator * max(1, abs(r.numerator)):
    t = sqrt_const(q)
    return -t if v < 0 else t
  return r


CONST_FACTS = {}


def sqrt_const(q):
  """The algebraic number sqrt(q) as a named constant with defining facts (kept polynomial for the solver)."""
  q = Fraction(q)
  n, d = math.isqrt(q.numerator), math.isqrt(q.denominator)
  if n * n == q.numerator and d * d == q.denominator:
    return Fraction(n, d)
  name = 'sqrtc_%d_%d' % (q.numerator, q.denominator)
  c = z3.Real(name)
  declare_sign(c, 'pos')
  lo = Fraction(math.sqrt(q)) * Fraction(999, 1000)
  CONST_FACTS[name] = [c > z3.RealVal(str(lo)), c * c == z3.RealVal(str(q))]
  return c


def int_to_real(v):
  """ToReal pushed through +,-,*,ite so that sign terms stay in real arithmetic."""
  if not is_z(v):
    return Fraction(v)
  if z3.is_real(v):
    return v
  if z3.is_int_value(v):
    return z3.RealVal(v.as_long())
  if z3.is_app(v):
    k = v.decl().kind()
    ch = v.children()
    if k == z3.Z3_OP_ADD:
      return z3.Sum([int_to_real(c) for c in ch])
    if k == z3.Z3_OP_SUB and len(ch) == 2:
      return int_to_real(ch[0]) - int_to_real(ch[1])
    if k == z3.Z3_OP_UMINUS:
      return -int_to_real(ch[0])
    if k == z3.Z3_OP_MUL:
      r = int_to_real(ch[0])
      for c in ch[1:]:
        r = r * int_to_real(c)
      return r
    if k == z3.Z3_OP_ITE:
      return z3.If(ch[0], int_to_real(ch[1]), int_to_real(ch[2]))
  return z3.ToReal(v)


def is_const(b):
  return is_z(b) and (z3.is_algebraic_value(b) or z3.is_rational_value(b) or z3.is_int_value(b) or (z3.is_const(b) and b.decl().name().startswith('sqrtc_')))


class XR:
  """Extended real: nan / +inf / -inf flags (python bool or z3 Bool, mutually exclusive) else finite v."""
  __slots__ = ('v', 'nan', 'pinf', 'ninf')

  def __init__(self, v, nan=False, pinf=False, ninf=False):
    self.v, self.nan, self.pinf, self.ninf = v, nan, pinf, ninf

  def __repr__(self):
    return 'XR(%s nan=%s +inf=%s -inf=%s)' % (self.v, self.nan, self.pinf, self.ninf)


NAN = XR(Fraction(0), nan=True)
PINF = XR(Fraction(0), pinf=True)
NINF = XR(Fraction(0), ninf=True)


class KeyT:
  """PRNG key term of the free algebra.  term: nested tuple."""
  __slots__ = ('term',)

  def __init__(self, term):
    self.term = term

  def __repr__(self):
    return 'Key%s' % (self.term,)

  def __eq__(self, o):
    return isinstance(o, KeyT) and o.term == self.term

  def __hash__(self):
    return hash(self.term)


class RawKey:
  """One of the two uint32 words of an unwrapped key."""
  __slots__ = ('key', 'i')

  def __init__(self, key, i):
    self.key, self.i = key, i

  def __repr__(self):
    return 'Raw(%s,%d)' % (self.key, self.i)


class Bits:
  """Raw random bits drawn from key at flat position pos; stage follows the uniform pattern."""
  __slots__ = ('key', 'pos', 'stage', 'nbits')

  def __init__(self, key, pos, stage, nbits=32):
    self.key, self.pos, self.stage, self.nbits = key, pos, stage, nbits


def zr(v):
  if is_z(v):
    return v
  if isinstance(v, (bool, np.bool_)):
    return z3.BoolVal(bool(v))
  if isinstance(v, (int, np.integer)):
    return z3.IntVal(int(v))
  if isinstance(v, Fraction):
    return z3.RealVal(str(v))
  if isinstance(v, float):
    return z3.RealVal(str(Fraction(v)))
  raise TypeError(type(v))


def zreal(v):
  v = zr(v)
  if z3.is_int(v):
    return z3.ToReal(v)
  if z3.is_bool(v):
    return z3.If(v, z3.RealVal(1), z3.RealVal(0))
  return v


# ---- boolean helpers with constant folding -------------------------------------------
def B_not(a):
  if is_z(a):
    return z3.Not(a)
  return not a


def B_and(*xs):
  out = []
  for x in xs:
    if is_z(x):
      out.append(x)
    elif not x:
      return False
  if not out:
    return True
  return out[0] if len(out) == 1 else z3.And(*out)


def B_or(*xs):
  out = []
  for x in xs:
    if is_z(x):
      out.append(x)
    elif x:
      return True
  if not out:
    return False
  return out[0] if len(out) == 1 else z3.Or(*out)


def B_ite(c, a, b):
  if not is_z(c):
    return a if c else b
  if not is_z(a) and not is_z(b):
    if a == b:
      return a
    if isinstance(a, (bool, np.bool_)) and isinstance(b, (bool, np.bool_)):
      return c if a else z3.Not(c)
  if is_z(a) and is_z(b) and a.eq(b):
    return a
  za, zb = zr(a), zr(b)
  if z3.is_int(za) and z3.is_real(zb):
    za = z3.ToReal(za)
  if z3.is_real(za) and z3.is_int(zb):
    zb = z3.ToReal(zb)
  return z3.If(c, za, zb)


def B_eq(a, b):
  if not is_z(a) and not is_z(b):
    return bool(a) == bool(b)
  return zr(a) == zr(b)


# ---- plain number helpers (Fraction/int/z3 arith) -------------------------------------
def n_add(a, b):
  if not is_z(a) and not is_z(b):
    return a + b
  if not is_z(a) and a == 0:
    return b
  if not is_z(b) and b == 0:
    return a
  return zr(a) + zr(b)


def n_sub(a, b):
  if not is_z(a) and not is_z(b):
    return a - b
  if not is_z(b) and b == 0:
    return a
  return zr(a) - zr(b)


def n_neg(a):
  return -a


def n_mul(a, b):
  if not is_z(a) and not is_z(b):
    return a * b
  for u, v in ((a, b), (b, a)):
    if not is_z(u):
      if u == 0:
        return u * 0
      if u == 1:
        return v
  return zr(a) * zr(b)


def n_div(a, b):
  """Real division."""
  if not is_z(a) and not is_z(b):
    return Fraction(a) / Fraction(b)
  if not is_z(b):
    if b == 1:
      return a
    return zreal(a) * zr(1 / Fraction(b))
  if not is_z(a) and a == 0:
    return Fraction(0)
  return zreal(a) / zreal(b)


SIGNS = {}   # z3 ast id -> (term, 'pos' | 'nonneg'): sign facts known at construction time (declared by harness/engine)


def declare_sign(term, sign):
  SIGNS[term.get_id()] = (term, sign)


def _sign(x):
  if is_z(x):
    e = SIGNS.get(x.get_id())
    return e[1] if e is not None else None
  return None


def n_lt(a, b):
  if not is_z(a) and not is_z(b):
    return a < b
  if not is_z(a) and a == 0 and _sign(b) == 'pos':      # 0 < b
    return True
  if not is_z(b) and b == 0 and _sign(a) in ('pos', 'nonneg'):   # a < 0
    return False
  if not is_z(a) and a < 0 and _sign(b) in ('pos', 'nonneg'):
    return True
  if not is_z(b) and b < 0 and _sign(a) in ('pos', 'nonneg'):
    return False
  return zr(a) < zr(b)


def n_le(a, b):
  if not is_z(a) and not is_z(b):
    return a <= b
  if not is_z(a) and a <= 0 and _sign(b) in ('pos', 'nonneg'):
    return True
  if not is_z(b) and b == 0 and _sign(a) == 'pos':
    return False
  return zr(a) <= zr(b)


def n_eq(a, b):
  if not is_z(a) and not is_z(b):
    return a == b
  if is_z(a) and is_z(b) and a.eq(b):
    return True
  if not is_z(a) and a <= 0 and _sign(b) == 'pos' or not is_z(b) and b <= 0 and _sign(a) == 'pos':
    return False
  if not is_z(a) and a < 0 and _sign(b) == 'nonneg' or not is_z(b) and b < 0 and _sign(a) == 'nonneg':
    return False
  return zr(a) == zr(b)


# ---- extended-real helpers --------------------------------------------------------------
def xr(a):
  if isinstance(a, XR):
    return a
  return XR(a)


def mk(v, nan, pinf, ninf):
  if nan is False and pinf is False and ninf is False:
    return v
  if nan is True:
    return NAN
  return XR(v, nan, pinf, ninf)


def x_fin(a):
  return B_not(B_or(a.nan, a.pinf, a.ninf))


def x_inf(a):
  return B_or(a.pinf, a.ninf)


def x_zero(a):
  return B_and(x_fin(a), n_eq(a.v, 0))


def x_pos(a):
  return B_or(a.pinf, B_and(x_fin(a), n_lt(0, a.v)))


def x_neg(a):
  return B_or(a.ninf, B_and(x_fin(a), n_lt(a.v, 0)))


def f_add(a, b):
  if not isinstance(a, XR) and not isinstance(b, XR):
    return n_add(a, b)
  a, b = xr(a), xr(b)
  nan = B_or(a.nan, b.nan, B_and(a.pinf, b.ninf), B_and(a.ninf, b.pinf))
  return mk(n_add(a.v, b.v), nan, B_and(B_not(nan), B_or(a.pinf, b.pinf)),
            B_and(B_not(nan), B_or(a.ninf, b.ninf)))


def f_neg(a):
  if not isinstance(a, XR):
    return n_neg(a)
  return mk(n_neg(a.v), a.nan, a.ninf, a.pinf)


def f_sub(a, b):
  if not isinstance(a, XR) and not isinstance(b, XR):
    return n_sub(a, b)
  return f_add(a, f_neg(b))


def f_mul(a, b):
  if not isinstance(a, XR) and not isinstance(b, XR):
    return n_mul(a, b)
  a, b = xr(a), xr(b)
  nan = B_or(a.nan, b.nan, B_and(x_inf(a), x_zero(b)), B_and(x_zero(a), x_inf(b)))
  isinf = B_and(B_not(nan), B_or(x_inf(a), x_inf(b)))
  same = B_or(B_and(x_pos(a), x_pos(b)), B_and(x_neg(a), x_neg(b)))
  return mk(n_mul(a.v, b.v), nan, B_and(isinf, same), B_and(isinf, B_not(same)))


def f_div(a, b):
  if not isinstance(a, XR) and not isinstance(b, XR) and not is_z(b):
    if b != 0:
      return n_div(a, b)
  if not isinstance(a, XR) and is_const(b) and not z3.is_true(z3.simplify(zr(b) == 0)):
    if z3.is_const(b) and b.decl().name().startswith('sqrtc_'):
      _, n, d = b.decl().name().split('_')
      inv = sqrt_const(Fraction(int(d), int(n)))     # a / sqrt(q) = a * sqrt(1/q): keeps terms polynomial
      return n_mul(a, inv)
    return zreal(a) / b
  a, b = xr(a), xr(b)
  bz = x_zero(b)
  nan = B_or(a.nan, b.nan, B_and(x_inf(a), x_inf(b)), B_and(x_zero(a), bz))
  isinf = B_and(B_not(nan), B_or(B_and(x_inf(a), x_fin(b)), B_and(x_fin(a), B_not(x_zero(a)), bz)))
  posr = B_or(B_and(x_pos(a), B_or(x_pos(b), bz)), B_and(x_neg(a), x_neg(b)))
  if bz is True:
    v = Fraction(0)
  else:
    v = n_div(a.v, b.v)
    infb = x_inf(b)
    if infb is not False:
      v = B_ite(infb, Fraction(0), v)
  return mk(v, nan, B_and(isinf, posr), B_and(isinf, B_not(posr)))


def f_lt(a, b):
  if not isinstance(a, XR) and not isinstance(b, XR):
    return n_lt(a, b)
  a, b = xr(a), xr(b)
  return B_and(B_not(a.nan), B_not(b.nan),
               B_or(B_and(a.ninf, B_not(b.ninf)), B_and(b.pinf, B_not(a.pinf)),
                    B_and(x_fin(a), x_fin(b), n_lt(a.v, b.v))))


def f_eq(a, b):
  if not isinstance(a, XR) and not isinstance(b, XR):
    return n_eq(a, b)
  a, b = xr(a), xr(b)
  return B_and(B_not(a.nan), B_not(b.nan),
               B_or(B_and(a.pinf, b.pinf), B_and(a.ninf, b.ninf), B_and(x_fin(a), x_fin(b), n_eq(a.v, b.v))))


def f_le(a, b):
  if not isinstance(a, XR) and not isinstance(b, XR):
    return n_le(a, b)
  return B_or(f_lt(a, b), f_eq(a, b))


def f_select(c, a, b):
  """c ? a : b"""
  if not is_z(c):
    return a if c else b
  if not isinstance(a, XR) and not isinstance(b, XR):
    return B_ite(c, a, b)
  a, b = xr(a), xr(b)
  return mk(B_ite(c, a.v, b.v), B_ite(c, a.nan, b.nan), B_ite(c, a.pinf, b.pinf), B_ite(c, a.ninf, b.ninf))


def f_max(a, b):
  r = f_select(f_lt(a, b), b, a)
  if isinstance(a, XR) or isinstance(b, XR):
    nan = B_or(xr(a).nan, xr(b).nan)
    if nan is not False:
      r = f_select(nan, NAN, r) if is_z(nan) else NAN
  return r


def f_min(a, b):
  r = f_select(f_lt(b, a), b, a)
  if isinstance(a, XR) or isinstance(b, XR):
    nan = B_or(xr(a).nan, xr(b).nan)
    if nan is not False:
      r = f_select(nan, NAN, r) if is_z(nan) else NAN
  return r


def f_abs(a):
  if isinstance(a, XR):
    return mk(f_abs(a.v), a.nan, B_or(a.pinf, a.ninf), False)
  if is_z(a):
    return z3.If(a < 0, -a, a)
  return abs(a)


def f_sign(a):
  if isinstance(a, XR):
    inner = f_sign(a.v)
    v = B_ite(a.pinf, 1, B_ite(a.ninf, -1, inner))
    return mk(v, a.nan, False, False)
  if is_z(a):
    one, zero = (z3.IntVal(1), z3.IntVal(0)) if z3.is_int(a) else (z3.RealVal(1), z3.RealVal(0))
    return z3.If(a > 0, one, z3.If(a < 0, -one, zero))
  return (a > 0) - (a < 0)


def f_isfinite(a):
  if isinstance(a, XR):
    return x_fin(a)
  return True


def f_floor(a):
  if isinstance(a, XR):
    return mk(f_floor(a.v), a.nan, a.pinf, a.ninf)
  if is_z(a):
    return z3.ToReal(z3.ToInt(a)) if z3.is_real(a) else a
  return Fraction(math.floor(a))


def f_ceil(a):
  return f_neg(f_floor(f_neg(a)))


def to_int_trunc(a):
  if isinstance(a, XR):
    raise Unsupported('float->int conversion of a possibly non-finite value')
  if is_z(a):
    if z3.is_int(a):
      return a
    return z3.If(a >= 0, z3.ToInt(a), -z3.ToInt(-a))
  return int(a)  # Fraction -> trunc toward zero


# --------------------------------------------------------------------------------------
# context: global facts, uninterpreted functions, key codes, random variables
# --------------------------------------------------------------------------------------
class Ctx:
  def __init__(self, numeric=False):
    self.facts = []           # z3 Bool facts true of every model (sqrt defs, ranges, axioms)
    self.numeric = numeric    # validation mode: sqrt/exp/log evaluated in floats
    self.key_codes = {}
    self.uniforms = {}
    self.ufs = {}
    self.fresh = itertools.count()
    self.trans_terms = {'exp': [], 'log': []}
    self.rich = []       # further TRUE facts about exp/log instances, used only to refine a counterexample (see jh.prove_all)
    self.prims_seen = set()
    self.uf_apps = []
    self.sqrt_memo = {}
    self.abstract_minmax = False
    self.floor_range = None       # (lo, hi) ints: floor/ceil of symbolic reals as ite chains; range recorded as obligation
    self.side_obligations = []
    self.minmax_memo = {}

  def key_code(self, key):
    if key not in self.key_codes:
      self.key_codes[key] = 1000 + len(self.key_codes)
    return self.key_codes[key]

  def uniform(self, key, pos):
    k = (key, pos)
    if k not in self.uniforms:
      u = z3.Real('u_%d_%s' % (self.key_code(key), '_'.join(str(x) for x in jax.tree_util.tree_leaves(pos))))
      self.facts += [u >= 0, u < 1]
      self.uniforms[k] = u
    return self.uniforms[k]

  def uf(self, name, arity, sort=None):
    k = (name, arity)
    if k not in self.ufs:
      self.ufs[k] = z3.Function(name, *([z3.RealSort()] * arity + [sort if sort is not None else z3.RealSort()]))
    return self.ufs[k]

  def sqrt(self, a):
    if isinstance(a, XR):
      r = self.sqrt(a.v)
      return mk(r, B_or(a.nan, a.ninf, B_and(x_fin(a), n_lt(a.v, 0))), a.pinf, False)
    if not is_z(a):
      a = Fraction(a)
      if a < 0:
        return NAN
      n, d = math.isqrt(a.numerator), math.isqrt(a.denominator)
      if n * n == a.numerator and d * d == a.denominator:
        return Fraction(n, d)
      if self.numeric:
        return Fraction(math.sqrt(a))
      return sqrt_const(a)
    za = zreal(a)
    canon = z3.simplify(za, som=True, sort_sums=True)
    k = canon.get_id()
    if k in self.sqrt_memo:
      return self.sqrt_memo[k][1]
    s = z3.Real('sqrt!%d' % next(self.fresh))
    declare_sign(s, 'nonneg')
    self.facts += [s >= 0, s * s == canon]
    self.sqrt_memo[k] = (canon, s)   # keep canon alive so the id stays unique
    return s

  def extremum(self, elems, is_max):
    """max/min of finite symbolic reals as a fresh variable with defining facts (no nested ite chain)."""
    key = (is_max, tuple(e.get_id() if is_z(e) else ('c', e) for e in elems))
    if key in self.minmax_memo:
      return self.minmax_memo[key]
    m = z3.Real('%s!%d' % ('max' if is_max else 'min', next(self.fresh)))
    zs = [zreal(e) for e in elems]
    self.facts += [(m >= e if is_max else m <= e) for e in zs] + [z3.Or(*[m == e for e in zs])]
    self.minmax_memo[key] = m
    return m

  def bounded_floor(self, a, ceil=False):
    lo, hi = self.floor_range
    za = zreal(a)
    self.side_obligations.append(z3.And(za >= lo, za <= hi))
    r = z3.RealVal(lo)
    for k in range(lo + 1, hi + 1):
      r = z3.If((za > k - 1) if ceil else (za >= k), z3.RealVal(k), r)
    return r

  def trans(self, fn, a):
    """exp/log/tanh/logistic as uninterpreted functions with ground axiom instances."""
    if isinstance(a, XR):
      if fn == 'exp':
        r = self.trans(fn, a.v)
        return mk(B_ite(a.ninf, Fraction(0), r), a.nan, a.pinf, False)
      if fn == 'log':
        r = self.trans(fn, a.v)
        isz = x_zero(a)
        return mk(r, B_or(a.nan, a.ninf, B_and(x_fin(a), n_lt(a.v, 0))), a.pinf, isz)
      raise Unsupported(fn + ' of non-finite')
    if not is_z(a):
      a = Fraction(a)
      if self.numeric:
        f = {'exp': math.exp, 'log': math.log, 'tanh': math.tanh,
             'logistic': lambda t: 1 / (1 + math.exp(-t)), 'log1p': math.log1p}[fn]
        if fn == 'log' and a == 0:
          return NINF
        if fn == 'log' and a < 0:
          return NAN
        return Fraction(f(float(a)))
      if fn == 'exp' and a == 0:
        return Fraction(1)
      if fn == 'log' and a == 1:
        return Fraction(0)
      if fn == 'log' and a == 0:
        return NINF
      if fn == 'log' and a < 0:
        return NAN
      if fn in ('tanh',) and a == 0:
        return Fraction(0)
      if fn == 'logistic' and a == 0:
        return Fraction(1, 2)
    F = self.uf('fx_' + fn, 1)      # (plain names such as `exp` are reserved theory symbols in cvc5)
    t = F(zreal(a))
    if fn == 'exp':
      declare_sign(t, 'pos')
      az = zreal(a)
      # ground instances of true facts about exp: positivity, the tangent at 0 (convexity) and the two half-line bounds.  They
      # keep solver models of the uninterpreted function close enough to the real one for counterexamples to replay.
      self.facts += [t > 0]
      self.rich += [t >= 1 + az, z3.Implies(az <= 0, t <= 1), z3.Implies(az >= 0, t >= 1)]
      self.trans_terms['exp'].append((az, t))
      return t
    if fn == 'log':
      # log of a possibly zero / negative symbolic argument
      az = zreal(a)
      self.trans_terms['log'].append((az, t))
      # true facts about log on its domain: log x <= x - 1, sign by the side of 1
      self.rich += [z3.Implies(az > 0, t <= az - 1), z3.Implies(az >= 1, t >= 0), z3.Implies(z3.And(az > 0, az <= 1), t <= 0)]
      return mk(t, az < 0, False, az == 0)
    if fn == 'tanh':
      self.facts += [t > -1, t < 1]
    if fn == 'logistic':
      self.facts += [t > 0, t < 1]
    return t

  def all_facts(self):
    out = list(self.facts)
    for fs in CONST_FACTS.values():
      out += fs
    return out


# --------------------------------------------------------------------------------------
# lifting concrete arrays
# --------------------------------------------------------------------------------------
def lift(x, dtype=None):
  """concrete array -> object array of exact numbers."""
  if is_sym(x):
    return x
  if dtype is None and hasattr(x, 'dtype'):
    dtype = x.dtype
  if dtype is not None and jax.dtypes.issubdtype(dtype, jax.dtypes.prng_key):
    raw = np.asarray(jax.random.key_data(x))
    out = np.empty(raw.shape[:-1], dtype=object)
    for idx in np.ndindex(*out.shape):
      out[idx] = KeyT(('const',) + tuple(int(v) for v in raw[idx]))
    return out
  x = np.asarray(x)
  out = np.empty(x.shape, dtype=object)
  kind = x.dtype.kind
  flat = x.reshape(-1)
  oflat = out.reshape(-1)
  for i in range(flat.size):
    v = flat[i]
    if kind == 'b':
      oflat[i] = bool(v)
    elif kind in 'iu':
      oflat[i] = int(v)
    elif kind == 'f' or kind == 'V':
      fv = float(v)
      if math.isnan(fv):
        oflat[i] = NAN
      elif math.isinf(fv):
        oflat[i] = PINF if fv > 0 else NINF
      else:
        oflat[i] = deround(fv, x.dtype if kind == 'f' else np.float32)
    else:
      raise Unsupported('dtype %s' % x.dtype)
  return oflat.reshape(x.shape)


def ew(fn, *arrs):
  arrs = np.broadcast_arrays(*arrs)
  out = np.empty(arrs[0].shape, dtype=object)
  o = out.reshape(-1) if out.size else out
  fl = [a.reshape(-1) for a in arrs]
  for i in range(out.size):
    o[i] = fn(*[f[i] for f in fl])
  return out


def symarr(name, shape, kind='f'):
  out = np.empty(shape, dtype=object)
  mkv = {'f': z3.Real, 'i': z3.Int, 'b': z3.Bool}[kind]
  for idx in np.ndindex(*shape):
    out[idx] = mkv(name + ''.join('_%d' % i for i in idx))
  return out


def keyarr(name, shape=()):
  out = np.empty(shape, dtype=object)
  for idx in np.ndindex(*shape):
    out[idx] = KeyT(('in', name) + tuple(idx))
  return out


def rawkeyarr(name, shape=()):
  """Unwrapped (legacy uint32[..., 2]) symbolic key."""
  out = np.empty(tuple(shape) + (2,), dtype=object)
  for idx in np.ndindex(*shape):
    k = KeyT(('in', name) + tuple(idx))
    out[idx + (0,)] = RawKey(k, 0)
    out[idx + (1,)] = RawKey(k, 1)
  return out


# --------------------------------------------------------------------------------------
# structural primitives by index tracking
# --------------------------------------------------------------------------------------
def index_track(prim, params, invals, positions):
  """Run the real primitive on element ids for the operands at `positions`, permute symbolic elements."""
  args = list(invals)
  pools = []
  base = 1  # 0 is reserved for 'padding/fill produced by the primitive'
  for p in positions:
    op = invals[p] if is_sym(invals[p]) else lift(invals[p])
    ids = (np.arange(op.size, dtype=np.int32) + base).reshape(op.shape)
    pools.append((base, op.reshape(-1)))
    base += op.size
    args[p] = ids
  args = [jnp.asarray(a) if not is_sym(a) else a for a in args]
  with jax.ensure_compile_time_eval():
    out_ids = prim.bind(*args, **params)
  outs = out_ids if prim.multiple_results else [out_ids]
  res = []
  for oi in outs:
    oi = np.asarray(oi)
    out = np.empty(oi.shape, dtype=object)
    of, idf = out.reshape(-1), oi.reshape(-1)
    for i in range(idf.size):
      e = int(idf[i])
      if e == 0:
        of[i] = None
        continue
      for b, flat in reversed(pools):
        if e >= b:
          of[i] = flat[e - b]
          break
    res.append(out)
  return res


STRUCTURAL = {'reshape', 'broadcast_in_dim', 'squeeze', 'transpose', 'slice', 'expand_dims', 'rev',
              'concatenate', 'copy_p', 'split', 'unstack', 'stack'}


# --------------------------------------------------------------------------------------
# the interpreter
# --------------------------------------------------------------------------------------
def _kind(aval):
  dt = aval.dtype
  if jax.dtypes.issubdtype(dt, jax.dtypes.prng_key):
    return 'k'
  k = np.dtype(dt).kind
  return {'f': 'f', 'i': 'i', 'u': 'i', 'b': 'b', 'V': 'f'}[k]


def _reduce(fn, init, a, axes):
  axes = tuple(axes)
  keep = tuple(s for i, s in enumerate(a.shape) if i not in axes)
  out = np.empty(keep, dtype=object)
  mv = np.moveaxis(a, axes, range(len(axes)))
  red_shape = mv.shape[:len(axes)]
  for idx in np.ndindex(*keep):
    acc = init
    first = True
    for k in np.ndindex(*red_shape):
      e = mv[k + idx]
      if first and init is None:
        acc = e
      else:
        acc = fn(acc, e)
      first = False
    out[idx] = acc
  return out


def _dot_general(a, b, dimension_numbers, **_):
  (ca, cb), (ba, bb) = dimension_numbers
  ca, cb, ba, bb = map(list, (ca, cb, ba, bb))
  fa = [i for i in range(a.ndim) if i not in ca and i not in ba]
  fb = [i for i in range(b.ndim) if i not in cb and i not in bb]
  at = a.transpose(ba + fa + ca)
  bt = b.transpose(bb + cb + fb)
  nb, nfa, nc = len(ba), len(fa), len(ca)
  bshape = at.shape[:nb]
  fashape = at.shape[nb:nb + nfa]
  cshape = at.shape[nb + nfa:]
  fbshape = bt.shape[nb + nc:]
  out = np.empty(bshape + fashape + fbshape, dtype=object)
  for bi in np.ndindex(*bshape):
    for i in np.ndindex(*fashape):
      for j in np.ndindex(*fbshape):
        acc = Fraction(0)
        for k in np.ndindex(*cshape):
          acc = f_add(acc, f_mul(at[bi + i + k], bt[bi + k + j]))
        out[bi + i + j] = acc
  return out


def _cmp_lex(keys_a, keys_b):
  """a < b lexicographically over key tuples (symbolic)."""
  res = False
  for ka, kb in reversed(list(zip(keys_a, keys_b))):
    res = B_or(f_lt(ka, kb), B_and(f_eq(ka, kb), res))
  return res


def _sort(operands, dimension, num_keys, is_stable=True, **_):
  ops = [np.moveaxis(o, dimension, -1).copy() for o in operands]
  n = ops[0].shape[-1]
  for lead in np.ndindex(*ops[0].shape[:-1]):
    rows = [[o[lead + (i,)] for i in range(n)] for o in ops]
    # bubble sort network, strict comparisons => stable
    for p in range(n):
      for j in range(n - 1 - p):
        swap = _cmp_lex([rows[k][j + 1] for k in range(num_keys)], [rows[k][j] for k in range(num_keys)])
        if swap is False:
          continue
        for r in rows:
          x, y = r[j], r[j + 1]
          r[j], r[j + 1] = f_select(swap, y, x), f_select(swap, x, y)
    for o, r in zip(ops, rows):
      for i in range(n):
        o[lead + (i,)] = r[i]
  return [np.moveaxis(o, -1, dimension) for o in ops]


def _argext(a, axes, index_dtype, is_max):
  (axis,) = axes
  mv = np.moveaxis(a, axis, -1)
  out = np.empty(mv.shape[:-1], dtype=object)
  for lead in np.ndindex(*mv.shape[:-1]):
    best_i, best_v = 0, mv[lead + (0,)]
    for i in range(1, mv.shape[-1]):
      v = mv[lead + (i,)]
      better = f_lt(best_v, v) if is_max else f_lt(v, best_v)
      best_i = B_ite(better, i, best_i)
      best_v = f_select(better, v, best_v)
    out[lead] = best_i
  return out


def _gather(operand, indices, dimension_numbers, slice_sizes, mode=None, fill_value=None, **_):
  """XLA gather with symbolic start indices (clip / promise_in_bounds / fill modes)."""
  dn = dimension_numbers
  offset_dims = tuple(dn.offset_dims)
  collapsed = tuple(dn.collapsed_slice_dims)
  start_index_map = tuple(dn.start_index_map)
  obatch = tuple(getattr(dn, 'operand_batching_dims', ()))
  ibatch = tuple(getattr(dn, 'start_indices_batching_dims', ()))
  mode_s = str(mode)
  fill = 'FILL' in mode_s.upper()
  batch_shape = indices.shape[:-1]
  out_rank = len(batch_shape) + len(offset_dims)
  offset_src = [d for d in range(operand.ndim) if d not in collapsed and d not in obatch]
  out_shape = []
  bi = iter(batch_shape)
  osz = iter([slice_sizes[d] for d in offset_src])
  for d in range(out_rank):
    out_shape.append(next(osz) if d in offset_dims else next(bi))
  out = np.empty(tuple(out_shape), dtype=object)
  batch_pos = [d for d in range(out_rank) if d not in offset_dims]
  for oidx in np.ndindex(*out.shape):
    bidx = tuple(oidx[d] for d in batch_pos)
    off = [oidx[d] for d in offset_dims]
    full_off = [0] * operand.ndim
    for d, o in zip(offset_src, off):
      full_off[d] = o
    starts = [0] * operand.ndim
    sym_dims = []
    for k, d in enumerate(start_index_map):
      s = indices[bidx + (k,)]
      starts[d] = s
    for od, idd in zip(obatch, ibatch):
      # batching dims: operand index along od = position of bidx along idd
      starts[od] = bidx[idd] if idd < len(bidx) else 0
    # enumerate candidate concrete starts for symbolic dims
    doms = []
    for d in range(operand.ndim):
      s = starts[d]
      hi = operand.shape[d] - slice_sizes[d]
      if is_z(s):
        doms.append(list(range(0, hi + 1)))
        sym_dims.append(d)
      else:
        doms.append([int(s)])
    val = None
    inb = True
    # build nested ite over candidate starts (clip semantics: below 0 -> 0, above hi -> hi)
    def elem(conc):
      return operand[tuple(c + o for c, o in zip(conc, full_off))]
    combos = list(itertools.product(*doms))
    if not sym_dims:
      conc = []
      ok = True
      for d, (c,) in enumerate(doms):
        hi = operand.shape[d] - slice_sizes[d]
        if c < 0 or c > hi:
          ok = False
        conc.append(min(max(c, 0), hi))
      e = elem(conc)
      out[oidx] = e if (ok or not fill) else _fillv(fill_value, e)
      continue
    res = None
    for conc in reversed(combos):
      cond = True
      for d in sym_dims:
        hi = operand.shape[d] - slice_sizes[d]
        s = starts[d]
        c = conc[d]
        if fill:
          cd = (s == c)
        elif c == 0 and hi == 0:
          cd = True
        elif c == 0:
          cd = (s <= 0)
        elif c == hi:
          cd = (s >= hi)
        else:
          cd = (s == c)
        cond = B_and(cond, cd)
      e = elem(conc)
      res = e if res is None else f_select(cond, e, res)
    if fill:
      anyin = B_and(*[B_and(starts[d] >= 0, starts[d] <= operand.shape[d] - slice_sizes[d]) for d in sym_dims])
      res = f_select(anyin, res, _fillv(fill_value, res))
    out[oidx] = res
  return out


def _fillv(fill_value, like):
  if fill_value is None:
    # jnp default: nan for inexact, minimum for ints ... approximated
    return NAN if not (isinstance(like, int) or (is_z(like) and z3.is_int(like))) else 0
  return Fraction(fill_value) if not float(fill_value).is_integer() else int(fill_value)


def _scatter(operand, indices, updates, dimension_numbers, combine, mode=None, **_):
  """XLA scatter / scatter-add with symbolic indices; out-of-bounds updates are dropped."""
  dn = dimension_numbers
  uwd = tuple(dn.update_window_dims)
  iwd = tuple(dn.inserted_window_dims)
  sd2od = tuple(dn.scatter_dims_to_operand_dims)
  obatch = tuple(getattr(dn, 'operand_batching_dims', ()))
  ibatch = tuple(getattr(dn, 'scatter_indices_batching_dims', ()))
  out = operand.copy()
  window_src = [d for d in range(operand.ndim) if d not in iwd and d not in obatch]
  scatter_pos = [d for d in range(updates.ndim) if d not in uwd]
  mode_s = str(mode).upper()
  clip = 'CLIP' in mode_s
  for uidx in np.ndindex(*updates.shape):
    sidx = tuple(uidx[d] for d in scatter_pos)
    woff = [uidx[d] for d in uwd]
    full_off = [0] * operand.ndim
    for d, o in zip(window_src, woff):
      full_off[d] = o
    tgt = list(full_off)
    symd = {}
    for od, idd in zip(obatch, ibatch):
      tgt[od] = sidx[idd]
    for k, d in enumerate(sd2od):
      s = indices[sidx + (k,)]
      if is_z(s):
        symd[d] = s
      else:
        tgt[d] = int(s) + full_off[d]
    u = updates[uidx]
    if not symd:
      t = tuple(tgt)
      if all(0 <= t[d] < operand.shape[d] for d in range(operand.ndim)):
        out[t] = combine(out[t], u)
      continue
    dims = sorted(symd)
    for conc in itertools.product(*[range(operand.shape[d]) for d in dims]):
      t = list(tgt)
      cond = True
      for d, c in zip(dims, conc):
        t[d] = c
        s = symd[d] + full_off[d] if full_off[d] else symd[d]
        if clip:
          hi = operand.shape[d] - 1
          cd = (s <= 0) if c == 0 and hi > 0 else ((s >= hi) if c == hi and hi > 0 else (s == c))
          if hi == 0:
            cd = True
        else:
          cd = (s == c)
        cond = B_and(cond, cd)
      t = tuple(t)
      out[t] = f_select(cond, combine(out[t], u), out[t])
  return out


UF_HANDLERS = {}   # primitive name -> fn(ctx, invals, eqn) -> list of outputs


class Interp:
  def __init__(self, ctx=None):
    self.ctx = ctx or Ctx()

  # -- entry ---------------------------------------------------------------------------
  def eval_closed(self, closed, *args):
    prev = NUMERIC_MODE[0]
    NUMERIC_MODE[0] = bool(self.ctx.numeric)
    try:
      return self.eval_jaxpr(closed.jaxpr, closed.consts, *args)
    finally:
      NUMERIC_MODE[0] = prev

  def eval_jaxpr(self, jaxpr, consts, *args):
    env = {}

    def read(v):
      if isinstance(v, jcore.Literal):
        val = v.val
        return val if is_sym(val) else np.asarray(val, dtype=v.aval.dtype)
      return env[v]
    for v, c in zip(jaxpr.constvars, consts):
      env[v] = c if is_sym(c) else c
    assert len(jaxpr.invars) == len(args), (len(jaxpr.invars), len(args))
    for v, a in zip(jaxpr.invars, args):
      env[v] = a
    for eqn in jaxpr.eqns:
      invals = [read(v) for v in eqn.invars]
      outs = self.eqn(eqn, invals)
      for v, o in zip(eqn.outvars, outs):
        env[v] = o
    return [read(v) for v in jaxpr.outvars]

  # -- one equation --------------------------------------------------------------------
  def eqn(self, eqn, invals):
    p = eqn.primitive.name
    self.ctx.prims_seen.add(p)
    params = eqn.params
    # higher-order first
    if p in ('jit', 'pjit', 'closed_call', 'core_call', 'remat', 'checkpoint', 'custom_jvp_call',
             'custom_vjp_call', 'custom_vjp_call_jaxpr', 'custom_lin'):
      sub = params.get('jaxpr') or params.get('call_jaxpr') or params.get('fun_jaxpr')
      if sub is None:
        raise Unsupported('higher-order %s without jaxpr' % p)
      if hasattr(sub, 'consts'):
        return self.eval_jaxpr(sub.jaxpr, sub.consts, *invals)
      return self.eval_jaxpr(sub, (), *invals)
    if p.startswith('uf_'):
      return UF_HANDLERS[p](self.ctx, [a if is_sym(a) else lift(a) for a in invals], eqn)
    if p == 'cond':
      idx = invals[0]
      if is_sym(idx):
        raise Unsupported('cond on symbolic predicate')
      br = params['branches'][int(np.asarray(idx))]
      return self.eval_jaxpr(br.jaxpr, br.consts, *invals[1:])
    if p == 'scan':
      return self._scan(eqn, invals)
    if p == 'while':
      return self._while(eqn, invals)
    if not any(is_sym(a) for a in invals):
      with jax.ensure_compile_time_eval():
        out = eqn.primitive.bind(*[a for a in invals], **params)
      outs = out if eqn.primitive.multiple_results else [out]
      return [o if jax.dtypes.issubdtype(o.dtype, jax.dtypes.prng_key) else np.asarray(o) for o in outs]
    return self.sym_eqn(p, eqn, invals)

  def _scan(self, eqn, invals):
    P = eqn.params
    n, nc, ncar = P['length'], P['num_consts'], P['num_carry']
    body = P['jaxpr']
    consts, carry, xs = invals[:nc], list(invals[nc:nc + ncar]), invals[nc + ncar:]
    xs = [x if is_sym(x) else lift(x) for x in xs]
    ys = []
    rng = range(n - 1, -1, -1) if P.get('reverse') else range(n)
    for i in rng:
      out = self.eval_jaxpr(body.jaxpr, body.consts, *consts, *carry, *[x[i] for x in xs])
      carry = out[:ncar]
      ys.append(out[ncar:])
    if P.get('reverse'):
      ys.reverse()
    stacked = []
    for k in range(len(ys[0]) if ys else 0):
      stacked.append(np.stack([(y[k] if is_sym(y[k]) else lift(y[k])) for y in ys]))
    return list(carry) + stacked

  def _while(self, eqn, invals):
    P = eqn.params
    cn, bn = P['cond_nconsts'], P['body_nconsts']
    cc, bc, carry = invals[:cn], invals[cn:cn + bn], list(invals[cn + bn:])
    for _ in range(10000):
      (c,) = self.eval_jaxpr(P['cond_jaxpr'].jaxpr, P['cond_jaxpr'].consts, *cc, *carry)
      if is_sym(c):
        c0 = c.reshape(-1)[0]
        if is_z(c0):
          raise Unsupported('while with symbolic predicate')
        c = c0
      if not bool(np.asarray(c)):
        return carry
      carry = self.eval_jaxpr(P['body_jaxpr'].jaxpr, P['body_jaxpr'].consts, *bc, *carry)
    raise Unsupported('while did not terminate')

  # -- symbolic primitives ---------------------------------------------------------------
  def sym_eqn(self, p, eqn, invals):
    params = eqn.params
    ctx = self.ctx
    L = None

    def lifted():
      return [a if is_sym(a) else lift(a) for a in invals]
    out_aval = eqn.outvars[0].aval
    okind = _kind(out_aval) if hasattr(out_aval, 'dtype') else 'f'

    if p in ('copy', 'copy_p', 'stop_gradient', 'optimization_barrier', 'reduce_precision', 'real', 'device_put'):
      return lifted()[:len(eqn.outvars)]
    if p in ('add', 'add_any'):
      L = lifted()
      if _is_bits(L[0]) or _is_bits(L[1]):
        raise Unsupported('arithmetic on raw random bits')
      if okind == 'b':
        return [ew(B_or, *L)]
      return [ew(f_add, *L)]
    if p == 'sub':
      L = lifted()
      if _is_bits(L[0]):
        return [self._bits_sub(L[0], L[1])]
      return [ew(f_sub, *L)]
    if p == 'mul':
      L = lifted()
      if okind == 'b':
        return [ew(B_and, *L)]
      return [ew(f_mul, *L)]
    if p == 'div':
      L = lifted()
      if okind == 'i':
        return [ew(_int_div, *L)]
      return [ew(f_div, *L)]
    if p == 'rem':
      L = lifted()
      if okind == 'i':
        return [ew(_int_rem, *L)]
      raise Unsupported('float rem')
    if p == 'neg':
      return [ew(f_neg, *lifted())]
    if p == 'abs':
      return [ew(f_abs, *lifted())]
    if p == 'sign':
      return [ew(f_sign, *lifted())]
    if p in ('floor', 'ceil') and ctx.floor_range is not None:
      def bf(a):
        if isinstance(a, XR):
          return mk(bf(a.v), a.nan, a.pinf, a.ninf)
        if not is_z(a):
          return f_floor(a) if p == 'floor' else f_ceil(a)
        return ctx.bounded_floor(a, ceil=(p == 'ceil'))
      return [ew(bf, *lifted())]
    if p == 'floor':
      return [ew(f_floor, *lifted())]
    if p == 'ceil':
      return [ew(f_ceil, *lifted())]
    if p == 'round':
      # round half away from zero (ROUND_AWAY) or to even; only AWAY supported symbolically
      def rnd(a):
        return f_select(f_lt(a, 0), f_neg(f_floor(f_add(f_neg(a), Fraction(1, 2)))), f_floor(f_add(a, Fraction(1, 2))))
      if int(params.get('rounding_method', 0)) != 0:
        raise Unsupported('round to even')
      return [ew(rnd, *lifted())]
    if p == 'is_finite':
      return [ew(f_isfinite, *lifted())]
    if p == 'square':
      return [ew(lambda a: f_mul(a, a), *lifted())]
    if p == 'integer_pow':
      y = params['y']

      def pw(a):
        r = a
        for _ in range(abs(y) - 1):
          r = f_mul(r, a)
        return f_div(Fraction(1), r) if y < 0 else r
      if y == 0:
        return [ew(lambda a: Fraction(1), *lifted())]
      return [ew(pw, *lifted())]
    if p == 'pow':
      L = lifted()

      def pw2(a, b):
        if is_z(b) or isinstance(b, XR):
          raise Unsupported('pow with symbolic exponent')
        b = Fraction(b)
        if b.denominator == 1:
          r = Fraction(1)
          for _ in range(abs(int(b))):
            r = f_mul(r, a)
          return f_div(Fraction(1), r) if b < 0 else r
        if b == Fraction(1, 2):
          return ctx.sqrt(a)
        raise Unsupported('pow exponent %s' % b)
      return [ew(pw2, *L)]
    if p == 'sqrt':
      return [ew(ctx.sqrt, *lifted())]
    if p == 'rsqrt':
      return [ew(lambda a: f_div(Fraction(1), ctx.sqrt(a)), *lifted())]
    if p in ('exp', 'log', 'tanh', 'logistic'):
      return [ew(lambda a: ctx.trans(p, a), *lifted())]
    if p == 'log1p':
      return [ew(lambda a: ctx.trans('log', f_add(a, Fraction(1))), *lifted())]
    if p == 'exp2':
      raise Unsupported('exp2')
    if p == 'max':
      return [ew(f_max, *lifted())]
    if p == 'min':
      return [ew(f_min, *lifted())]
    if p in ('lt', 'le', 'gt', 'ge', 'eq', 'ne'):
      L = lifted()
      k0 = _kind(eqn.invars[0].aval)
      if k0 == 'b':
        fn = {'eq': B_eq, 'ne': lambda a, b: B_not(B_eq(a, b))}[p]
        return [ew(fn, *L)]
      fn = {'lt': f_lt, 'le': f_le, 'gt': lambda a, b: f_lt(b, a), 'ge': lambda a, b: f_le(b, a),
            'eq': f_eq, 'ne': lambda a, b: B_not(f_eq(a, b))}[p]
      return [ew(fn, *L)]
    if p == 'and':
      L = lifted()
      if okind == 'b':
        return [ew(B_and, *L)]
      raise Unsupported('bitwise and on symbolic ints')
    if p == 'or':
      L = lifted()
      if okind == 'b':
        return [ew(B_or, *L)]
      if _is_bits(L[0]):
        return [self._bits_stage(L[0], 2)]
      raise Unsupported('bitwise or on symbolic ints')
    if p == 'not':
      if okind == 'b':
        return [ew(B_not, *lifted())]
      raise Unsupported('bitwise not')
    if p == 'xor':
      L = lifted()
      if okind == 'b':
        return [ew(lambda a, b: B_not(B_eq(a, b)), *L)]
      raise Unsupported('xor')
    if p == 'select_n':
      L = lifted()
      pred, cases = L[0], L[1:]
      pk = _kind(eqn.invars[0].aval)
      if pk == 'b':
        assert len(cases) == 2
        return [ew(lambda c, a, b: f_select(c, b, a), pred, cases[0], cases[1])]

      def seln(c, *cs):
        if not is_z(c):
          return cs[int(c)]
        r = cs[-1]
        for i in range(len(cs) - 2, -1, -1):
          r = f_select(c == i, cs[i], r)
        return r
      return [ew(seln, pred, *cases)]
    if p == 'clamp':
      L = lifted()
      return [ew(lambda lo, x, hi: f_min(f_max(x, lo), hi), *L)]
    if p == 'convert_element_type':
      (a,) = lifted()
      ik = _kind(eqn.invars[0].aval)
      return [self._convert(a, ik, okind)]
    if p == 'reduce_sum':
      (a,) = lifted()
      return [_reduce(f_add, 0 if okind == 'i' else Fraction(0), a, params['axes'])]
    if p == 'reduce_prod':
      (a,) = lifted()
      return [_reduce(f_mul, 1 if okind == 'i' else Fraction(1), a, params['axes'])]
    if p in ('reduce_max', 'reduce_min'):
      (a,) = lifted()
      if ctx.abstract_minmax and okind == 'f' and len(params['axes']) == a.ndim and a.size > 1 and \
         not any(isinstance(e, XR) for e in a.reshape(-1)):
        out = np.empty((), dtype=object)
        out[()] = ctx.extremum(list(a.reshape(-1)), p == 'reduce_max')
        return [out]
      return [_reduce(f_max if p == 'reduce_max' else f_min, None, a, params['axes'])]
    if p == 'reduce_and':
      (a,) = lifted()
      return [_reduce(B_and, True, a, params['axes'])]
    if p == 'reduce_or':
      (a,) = lifted()
      return [_reduce(B_or, False, a, params['axes'])]
    if p in ('argmax', 'argmin'):
      (a,) = lifted()
      return [_argext(a, params['axes'], params['index_dtype'], p == 'argmax')]
    if p in ('cumsum', 'cumprod', 'cummax', 'cummin'):
      (a,) = lifted()
      fn = {'cumsum': f_add, 'cumprod': f_mul, 'cummax': f_max, 'cummin': f_min}[p]
      ax, rev = params['axis'], params.get('reverse', False)
      mv = np.moveaxis(a, ax, 0).copy()
      order = range(mv.shape[0] - 1, -1, -1) if rev else range(mv.shape[0])
      acc = None
      for i in order:
        acc = mv[i] if acc is None else ew(fn, acc, mv[i])
        mv[i] = acc
      return [np.moveaxis(mv, 0, ax)]
    if p == 'dot_general':
      L = lifted()
      return [_dot_general(L[0], L[1], **params)]
    if p == 'sort':
      return _sort(lifted(), **params)
    if p == 'top_k':
      (a,) = lifted()
      k = params['k']
      n = a.shape[-1]
      idx = np.empty(a.shape, dtype=object)
      for lead in np.ndindex(*a.shape[:-1]):
        for i in range(n):
          idx[lead + (i,)] = i
      neg = ew(f_neg, a)
      srt = _sort([neg, idx], dimension=a.ndim - 1, num_keys=1)      # descending by value, ties toward the lowest index
      vals = ew(f_neg, srt[0])
      sl = (slice(None),) * (a.ndim - 1) + (slice(0, k),)
      return [vals[sl], srt[1][sl]]
    if p == 'iota':
      raise Unsupported('iota with symbolic operands')
    if p in STRUCTURAL:
      pos = [i for i in range(len(invals))]
      res = index_track(eqn.primitive, params, invals, pos)
      return res
    if p == 'squeeze' or p == 'expand_dims':
      return index_track(eqn.primitive, params, invals, [0])
    if p == 'pad':
      op, pv = invals
      r = index_track(eqn.primitive, params, [op, np.zeros((), np.int32)], [0])[0]
      pvl = (pv if is_sym(pv) else lift(pv)).reshape(-1)[0]
      flat = r.reshape(-1)
      for i in range(flat.size):
        if flat[i] is None:
          flat[i] = pvl
      return [flat.reshape(r.shape)]
    if p == 'dynamic_slice':
      op, *starts = invals
      if any(is_sym(s) for s in starts):
        return [self._dyn_slice_sym(op if is_sym(op) else lift(op), starts, params['slice_sizes'])]
      return index_track(eqn.primitive, params, invals, [0])
    if p == 'dynamic_update_slice':
      op, upd, *starts = invals
      if any(is_sym(s) for s in starts):
        raise Unsupported('dynamic_update_slice with symbolic start')
      return index_track(eqn.primitive, params, invals, [0, 1])
    if p == 'gather':
      op, idx = invals
      if not is_sym(idx):
        return index_track(eqn.primitive, params, invals, [0])
      return [_gather(op if is_sym(op) else lift(op), idx, **params)]
    if p in ('scatter-add', 'scatter_add', 'scatter', 'scatter-mul', 'scatter_mul'):
      op, idx, upd = lifted()
      comb = {'scatter-add': f_add, 'scatter_add': f_add, 'scatter': lambda old, new: new,
              'scatter-mul': f_mul, 'scatter_mul': f_mul}[p]
      if not is_sym(invals[1]):
        idx = np.asarray(invals[1]).astype(object)
      return [_scatter(op, idx, upd, params['dimension_numbers'], comb, params.get('mode'))]
    # ---- randomness -------------------------------------------------------------------
    if p == 'random_wrap':
      (raw,) = invals
      out = np.empty(raw.shape[:-1], dtype=object)
      for idx in np.ndindex(*out.shape):
        r0 = raw[idx + (0,)]
        if isinstance(r0, RawKey):
          out[idx] = r0.key
        else:
          out[idx] = KeyT(('const', int(raw[idx + (0,)]), int(raw[idx + (1,)])))
      return [out]
    if p == 'random_unwrap':
      (k,) = lifted()
      out = np.empty(k.shape + (2,), dtype=object)
      for idx in np.ndindex(*k.shape):
        out[idx + (0,)] = RawKey(k[idx], 0)
        out[idx + (1,)] = RawKey(k[idx], 1)
      return [out]
    if p == 'random_split':
      (k,) = lifted()
      shape = tuple(params['shape'])
      out = np.empty(k.shape + shape, dtype=object)
      for idx in np.ndindex(*k.shape):
        for j in np.ndindex(*shape):
          out[idx + j] = KeyT(('split', k[idx].term, shape) + j)
      return [out]
    if p == 'random_fold_in':
      k, d = lifted()
      def fold(kk, dd):
        if is_z(dd):
          raise Unsupported('fold_in of symbolic data')
        return KeyT(('fold', kk.term, int(dd)))
      return [ew(fold, k, d)]
    if p == 'random_bits':
      (k,) = lifted()
      shape = tuple(params['shape'])
      out = np.empty(k.shape + shape, dtype=object)
      for idx in np.ndindex(*k.shape):
        for n, j in enumerate(np.ndindex(*shape)):
          out[idx + j] = Bits(k[idx], (shape, n), 0, params['bit_width'])
      return [out]
    if p == 'shift_right_logical':
      L = lifted()
      if _is_bits(L[0]):
        return [self._bits_stage(L[0], 1)]
      raise Unsupported('shift on symbolic ints')
    if p == 'bitcast_convert_type':
      (a,) = lifted()
      if _is_bits(a):
        return [self._bits_stage(a, 3)]
      raise Unsupported('bitcast of symbolic')
    raise Unsupported('primitive %s: %s' % (p, str(eqn)[:200]))

  # -- helpers -------------------------------------------------------------------------
  def _bits_stage(self, a, stage):
    def st(b):
      if not isinstance(b, Bits) or b.stage != stage - 1:
        raise Unsupported('random bits used outside the uniform pattern')
      return Bits(b.key, b.pos, stage, b.nbits)
    return ew(st, a)

  def _bits_sub(self, a, b):
    def st(x, y):
      if not isinstance(x, Bits) or x.stage != 3 or is_z(y) or Fraction(y) != 1:
        raise Unsupported('random bits used outside the uniform pattern')
      return self.ctx.uniform(x.key, x.pos)
    return ew(st, a, b)

  def _convert(self, a, ik, ok):
    if ik == ok or ik == 'k':
      return a
    if ok == 'f':
      if ik == 'i':
        return ew(lambda v: int_to_real(v) if is_z(v) else (v if isinstance(v, (XR, Bits)) else Fraction(v)), a)
      if ik == 'b':
        return ew(lambda v: B_ite(v, Fraction(1), Fraction(0)), a)
    if ok == 'i':
      if ik == 'f':
        return ew(to_int_trunc, a)
      if ik == 'b':
        return ew(lambda v: B_ite(v, 1, 0), a)
    if ok == 'b':
      if ik == 'i':
        return ew(lambda v: B_not(n_eq(v, 0)), a)
      return ew(lambda v: B_not(f_eq(v, Fraction(0))), a)
    raise Unsupported('convert %s->%s' % (ik, ok))

  def _dyn_slice_sym(self, op, starts, sizes):
    starts = [(s if is_sym(s) else lift(s)).reshape(-1)[0] for s in starts]
    out = np.empty(tuple(sizes), dtype=object)
    doms = []
    for d, s in enumerate(starts):
      hi = op.shape[d] - sizes[d]
      doms.append(list(range(hi + 1)) if is_z(s) else [min(max(int(s), 0), hi)])
    for oidx in np.ndindex(*out.shape):
      res = None
      for conc in reversed(list(itertools.product(*doms))):
        cond = True
        for d, c in enumerate(conc):
          s = starts[d]
          if not is_z(s):
            continue
          hi = op.shape[d] - sizes[d]
          cd = True if hi == 0 else ((s <= 0) if c == 0 else ((s >= hi) if c == hi else (s == c)))
          cond = B_and(cond, cd)
        e = op[tuple(c + o for c, o in zip(conc, oidx))]
        res = e if res is None else f_select(cond, e, res)
      out[oidx] = res
    return out


def _is_bits(a):
  return is_sym(a) and a.size > 0 and isinstance(a.reshape(-1)[0], Bits)


def _int_div(a, b):
  """lax.div on integers: truncation toward zero."""
  if not is_z(a) and not is_z(b):
    q = abs(a) // abs(b)
    return q if (a >= 0) == (b >= 0) else -q
  a, b = zr(a), zr(b)
  q = z3.If(a >= 0, a, -a) / z3.If(b >= 0, b, -b)   # Int division of non-negatives = floor
  return z3.If((a >= 0) == (b >= 0), q, -q)


def _int_rem(a, b):
  if not is_z(a) and not is_z(b):
    return a - b * _int_div(a, b)
  return zr(a) - zr(b) * _int_div(a, b)


# --------------------------------------------------------------------------------------
# tracing with forks
# --------------------------------------------------------------------------------------
class ForkState:
  active = None


_orig_bool = jsrc_core.Tracer.__bool__
_orig_index = jsrc_core.Tracer.__index__


def _fork_bool(self):
  st = ForkState.active
  if st is None:
    return _orig_bool(self)
  k = len(st['decisions'])
  d = bool(st['script'][k]) if k < len(st['script']) else True
  st['decisions'].append((self, d))
  return d


def _fork_index(self):
  """Python-level integer use of a traced value (list indexing): concretise to a scripted value from the
  harness-supplied finite domain; the path condition is `tracer == value`."""
  st = ForkState.active
  if st is None or st.get('index_domain') is None:
    return _orig_index(self)
  memo = st.setdefault('memo', {})
  if id(self) in memo:          # the same traced value is concretised consistently
    return memo[id(self)][1]
  k = len(st['decisions'])
  d = int(st['script'][k]) if k < len(st['script']) else int(st['index_domain'][0])
  st['decisions'].append((self, ('i', d)))
  memo[id(self)] = (self, d)
  return d


jsrc_core.Tracer.__bool__ = _fork_bool
jsrc_core.Tracer.__index__ = _fork_index


def alternatives(decision, index_domain):
  if isinstance(decision, tuple):
    return [('i', v) for v in (index_domain or []) if v != decision[1]]
  return [not decision]


def trace(fn, abstract_args, script=(), index_domain=None):
  """Trace fn(*args) with disable_jit + compile-time eval.  Returns (closed_jaxpr, out_tree_def, decisions)."""
  st = {'script': [s[1] if isinstance(s, tuple) else s for s in script], 'decisions': [], 'index_domain': index_domain}

  def wrapped(*a):
    with jax.disable_jit(), jax.ensure_compile_time_eval():
      out = fn(*a)
    conds = [t for t, _ in st['decisions']]
    return out, conds
  prev = ForkState.active
  ForkState.active = st
  try:
    closed, shape = jax.make_jaxpr(lambda *a: wrapped(*a), return_shape=True)(*abstract_args)
  finally:
    ForkState.active = prev
  return closed, shape, [d for _, d in st['decisions']]


def run_symbolic(fn, abstract_args, sym_args, ctx=None, script=(), interp=None, index_domain=None):
  """Trace and interpret.  Returns (out_pytree_of_object_arrays, path_conds, decisions, closed)."""
  closed, shape, decisions = trace(fn, abstract_args, script, index_domain)
  flat_sym, _ = jax.tree_util.tree_flatten(sym_args, is_leaf=lambda x: isinstance(x, np.ndarray))
  it = interp or Interp(ctx)
  outs = it.eval_closed(closed, *flat_sym)
  outs = [o if is_sym(o) else lift(o) for o in outs]
  out_tree = jax.tree_util.tree_structure(shape)
  full = jax.tree_util.tree_unflatten(out_tree, outs)
  out, conds = full
  pcs = []
  for c, d in zip(conds, decisions):
    e = c.reshape(-1)[0]
    if isinstance(d, tuple):
      pcs.append(n_eq(e, d[1]))
    else:
      pcs.append(e if d else B_not(e))
  return out, pcs, decisions, closed


def explore(fn, abstract_args, sym_args, ctx_factory=Ctx, max_paths=64, max_depth=8, index_domain=None):
  """DFS over fork scripts.  Yields (out, path_conds, ctx, script)."""
  stack = [()]
  n = 0
  while stack:
    script = stack.pop()
    ctx = ctx_factory()
    out, pcs, decisions, closed = run_symbolic(fn, abstract_args, sym_args, ctx=ctx, script=script, index_domain=index_domain)
    n += 1
    if n > max_paths:
      raise Unsupported('too many fork paths')
    if len(decisions) > max_depth:
      raise Unsupported('fork depth %d' % len(decisions))
    for i in range(len(script), len(decisions)):
      for alt in alternatives(decisions[i], index_domain):
        stack.append(tuple(decisions[:i]) + (alt,))
    yield out, pcs, ctx, tuple(decisions)


# --------------------------------------------------------------------------------------
# solving
# --------------------------------------------------------------------------------------
CROSS = {'budget': 0, 'checked': 0, 'agree': 0, 'unknown': 0, 'disagree': 0, 'errors': 0, 'examples': []}


def cvc5_crosscheck(solver, z3_verdict):
  """Second opinion from cvc5 (binary, SMT-LIB2 text) on a query z3 has decided; 'unknown'/timeouts are not disagreements."""
  import os
  import subprocess
  import tempfile
  if CROSS['budget'] <= CROSS['checked']:
    return
  CROSS['checked'] += 1
  text = '(set-logic ALL)\n' + solver.to_smt2()
  fd, path = tempfile.mkstemp(suffix='.smt2', prefix='vf_cc_')
  try:
    with os.fdopen(fd, 'w') as f:
      f.write(text)
    try:
      r = subprocess.run(['cvc5', '--tlimit=10000', path], capture_output=True, text=True, timeout=20)
      out = (r.stdout + r.stderr).strip().splitlines()
      verdict = out[0].strip() if out else 'unknown'
    except subprocess.TimeoutExpired:
      verdict = 'unknown'
    if verdict not in ('sat', 'unsat'):
      if '(error' in verdict or 'error' in verdict.lower():
        CROSS['errors'] += 1
      else:
        CROSS['unknown'] += 1
    elif verdict == z3_verdict:
      CROSS['agree'] += 1
    else:
      CROSS['disagree'] += 1
      CROSS['examples'].append(text[:2000])
  finally:
    try:
      os.remove(path)
    except OSError:
      pass


def check_sat(constraints, timeout_s=20.0):
  """Returns ('sat', model) | ('unsat', None) | ('unknown', reason)."""
  cs = []
  for c in constraints:
    if is_z(c):
      cs.append(c)
    elif not c:
      return 'unsat', None
  s = z3.Solver()
  s.set('timeout', int(timeout_s * 1000))
  s.add(*cs)
  r = s.check()
  if r == z3.sat:
    cvc5_crosscheck(s, 'sat')
    return 'sat', s.model()
  if r == z3.unsat:
    cvc5_crosscheck(s, 'unsat')
    return 'unsat', None
  reason = s.reason_unknown()
  # z3's non-linear search occasionally wanders off on a query it otherwise decides in a second or two: retry with other
  # random seeds (short budget) before giving the query up
  for sd in (11, 42, 7):
    s2 = z3.Solver()
    s2.set('timeout', int(min(timeout_s, 30.0) * 1000))
    for k in ('random_seed', 'smt.random_seed'):
      try:
        s2.set(k, sd)
      except z3.Z3Exception:
        pass
    s2.add(*cs)
    r2 = s2.check()
    RETRIES['tried'] += 1
    if r2 == z3.sat:
      RETRIES['decided'] += 1
      return 'sat', s2.model()
    if r2 == z3.unsat:
      RETRIES['decided'] += 1
      return 'unsat', None
  m = guided_model_search(cs)
  if m is not None:
    return 'sat', m
  return 'unknown', reason


RETRIES = {'tried': 0, 'decided': 0}
RICH_TRANS = [False]     # opt-in (C14): a goal that is not proved from the plain facts is re-decided with Ctx.rich added
FALSIFY = {'tries': 10, 'timeout_ms': 4000, 'found': 0, 'attempts': 0, 'scale': Fraction(1), 'budget': 60}
_CANDS = [Fraction(v) for v in (1, -1, 2, 0, 3, -2)] + [Fraction(1, 2), Fraction(-1, 2), Fraction(3, 2), Fraction(5)]


def _free_consts(exprs):
  seen, out, stack = set(), {}, list(exprs)
  while stack:
    e = stack.pop()
    if e.get_id() in seen:
      continue
    seen.add(e.get_id())
    if z3.is_const(e) and e.decl().kind() == z3.Z3_OP_UNINTERPRETED:
      out[e.decl().name()] = e
    else:
      stack.extend(e.children())
  return out


def guided_model_search(cs):
  """After z3 answered `unknown` (a non-linear query it neither refutes nor satisfies in time): pin the free real
  constants to small rationals, as tracked assumptions, and let the SOLVER decide the remaining (now mostly linear)
  query; pins that clash with the assumptions (unsat core) are released and the query retried.  A model found this way
  is a model of the original constraints (the pins are only extra assumptions), so `sat` stays sound; failing to find one
  leaves the verdict `unknown`."""
  import random
  consts = _free_consts(cs)
  reals = [c for n, c in sorted(consts.items()) if c.sort() == z3.RealSort()]
  if not reals:
    return None
  rng = random.Random(len(reals) * 7919 + len(cs))
  for attempt in range(FALSIFY['tries']):
    if FALSIFY['attempts'] >= FALSIFY['budget']:     # per-process cap: the search is a convenience, never a verdict
      return None
    FALSIFY['attempts'] += 1
    s = z3.Solver()
    s.set('timeout', FALSIFY['timeout_ms'])
    s.add(*cs)
    pins = {}
    for i, c in enumerate(reals):
      v = (rng.choice(_CANDS) if attempt else _CANDS[i % len(_CANDS)]) * FALSIFY['scale']
      lit = z3.Bool('pin!%d' % i)
      s.add(z3.Implies(lit, c == z3.RealVal(str(v))))
      pins[lit.decl().name()] = lit
    active = dict(pins)
    for _ in range(6):
      r = s.check(*active.values())
      if r == z3.sat:
        FALSIFY['found'] += 1
        return s.model()
      if r != z3.unsat:
        break
      core = {c.decl().name() for c in s.unsat_core()}
      if not core:
        return None        # constraints unsat on their own: nothing to find
      for n in core:
        active.pop(n, None)
  return None


def prove(assumptions, goal, timeout_s=20.0):
  """Is goal implied by assumptions?  'unsat' = yes (no counterexample)."""
  if not is_z(goal):
    if goal:
      return 'unsat', None
    return check_sat(list(assumptions), timeout_s)
  # fast path: z3's rewriter normalises polynomial identities (sum of monomials) to `true`
  try:
    g = z3.simplify(goal, som=True)
    if z3.is_true(g):
      return 'unsat', None
  except z3.Z3Exception:
    pass
  return check_sat(list(assumptions) + [z3.Not(goal)], timeout_s)


def same(a, b):
  """Property-level equality of two float elements (same flags, equal value when finite)."""
  if not isinstance(a, XR) and not isinstance(b, XR):
    if isinstance(a, KeyT) or isinstance(b, KeyT):
      return a == b
    return n_eq(a, b)
  a, b = xr(a), xr(b)
  return B_and(B_eq(a.nan, b.nan), B_eq(a.pinf, b.pinf), B_eq(a.ninf, b.ninf),
               B_or(B_not(x_fin(a)), n_eq(a.v, b.v)))


def finite(a):
  if isinstance(a, XR):
    return x_fin(a)
  return True


def model_value(model, e):
  """Evaluate an element under a model -> python float (nan/inf aware)."""
  if isinstance(e, XR):
    def tb(b):
      return bool(z3.is_true(model.eval(b, model_completion=True))) if is_z(b) else bool(b)
    if tb(e.nan):
      return float('nan')
    if tb(e.pinf):
      return float('inf')
    if tb(e.ninf):
      return float('-inf')
    return model_value(model, e.v)
  if not is_z(e):
    return e if isinstance(e, (bool, int)) else float(e)
  v = model.eval(e, model_completion=True)
  if z3.is_bool(v):
    return bool(z3.is_true(v))
  if z3.is_int_value(v):
    return v.as_long()
  if z3.is_rational_value(v):
    return float(Fraction(v.numerator_as_long(), v.denominator_as_long()))
  if z3.is_algebraic_value(v):
    return float(v.approx(20).as_fraction())
  raise ValueError('cannot evaluate %s' % v)


def model_array(model, arr, dtype=np.float64):
  out = np.empty(arr.shape, dtype=dtype)
  for idx in np.ndindex(*arr.shape):
    out[idx] = model_value(model, arr[idx])
  return out


def abstract_noise_atoms(exprs, noise_vars):
  """Replace every maximal Bool-sorted subterm whose free constants are all noise variables (uniform draws) by a
  fresh Bool.  Sound for validity (fresh Bools are less constrained than the atoms); sat answers need replay."""
  noise_ids = {v.get_id() for v in noise_vars}
  cache, atoms = {}, {}

  def consts(t):
    k = t.get_id()
    if k in cache:
      return cache[k]
    if z3.is_const(t) and t.decl().kind() == z3.Z3_OP_UNINTERPRETED:
      r = (frozenset([k]) if True else frozenset())
    elif z3.is_app(t):
      r = frozenset().union(*[consts(c) for c in t.children()]) if t.num_args() else frozenset()
    else:
      r = frozenset()
    cache[k] = r
    return r
  done = {}

  def walk(t):
    k = t.get_id()
    if k in done:
      return done[k]
    cs = consts(t)
    if z3.is_bool(t) and cs and cs <= noise_ids:
      if k not in atoms:
        atoms[k] = z3.Bool('noise_atom_%d' % len(atoms))
      r = atoms[k]
    elif z3.is_app(t) and t.num_args() and (cs & noise_ids):
      r = t.decl()(*[walk(c) for c in t.children()])
    else:
      r = t
    done[k] = r
    return r
  return [walk(e) if is_z(e) else e for e in exprs], len(atoms)
