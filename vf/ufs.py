"""Uninterpreted JAX primitives: 'any gradient function', 'any optimizer', 'any loss', 'any client program'.

Traceable (abstract-eval only); in SMT each output element is an uninterpreted function of all
operand elements.  For replay, `REALISE` maps primitive name -> concrete implementation derived
from a solver model (nearest-neighbour table over the model's finitely many points).
"""
from fractions import Fraction

import numpy as np
import z3

import jax
import jax.numpy as jnp
from jax.extend.core import Primitive
from jax import core
from jax.interpreters import ad, batching

from . import symjx as sj

REALISE = {}      # prim name -> fn(flat concrete operands, params) -> list of np arrays
_PRIMS = {}
NAN_CODES = {}


def _arg_real(ctx, e):
  if isinstance(e, sj.XR):
    codes = NAN_CODES.setdefault(id(ctx), [z3.Real('NANCODE'), z3.Real('PINFCODE'), z3.Real('NINFCODE')])
    return sj.B_ite(e.nan, codes[0], sj.B_ite(e.pinf, codes[1], sj.B_ite(e.ninf, codes[2], sj.zreal(e.v))))
  if isinstance(e, sj.KeyT):
    return z3.RealVal(ctx.key_code(e))
  if isinstance(e, sj.RawKey):
    return z3.RealVal(ctx.key_code(e.key) * 2 + e.i)
  if isinstance(e, sj.Bits):
    raise sj.Unsupported('raw bits into UF')
  return sj.zreal(e)


def _handler(name, nanable):
  def handle(ctx, invals, eqn):
    args = []
    for a in invals:
      args += [_arg_real(ctx, e) for e in a.reshape(-1)]
    tag = eqn.params.get('tag', '')
    outs = []
    for k, ov in enumerate(eqn.outvars):
      shape = ov.aval.shape
      kind = np.dtype(ov.aval.dtype).kind
      out = np.empty(shape, dtype=object)
      flat = out.reshape(-1) if out.size else out
      for e in range(out.size):
        fname = '%s%s_o%d_e%d' % (name, tag, k, e)
        F = ctx.uf(fname, len(args))
        t = F(*args) if args else z3.Real(fname)
        ctx.uf_apps.append((fname, args, t))
        if kind in 'iu':
          t = z3.ToInt(t)
        elif kind == 'b':
          t = t > 0
        if nanable and kind == 'f':
          G = ctx.uf(fname + '_isnan', len(args), z3.BoolSort())
          nb = G(*args) if args else z3.Bool(fname + '_isnan')
          t = sj.XR(t, nan=nb)
        flat[e] = t
      outs.append(out)
    return outs
  return handle


def make_uf(name, nanable=False):
  """Create (or fetch) the uninterpreted primitive uf_<name>."""
  full = 'uf_' + name
  if full in _PRIMS:
    return _PRIMS[full]
  p = Primitive(full)
  p.multiple_results = True

  def abstract(*avals, out_avals, **kw):
    return [core.ShapedArray(s, d) for s, d in out_avals]
  p.def_abstract_eval(abstract)

  def impl(*args, out_avals, **kw):
    if full not in REALISE:
      raise RuntimeError('uninterpreted primitive %s executed without a realisation' % full)
    outs = REALISE[full]([np.asarray(a) for a in args], dict(kw, out_avals=out_avals))
    return [jnp.asarray(o, dtype=d).reshape(s) for o, (s, d) in zip(outs, out_avals)]
  p.def_impl(impl)

  def batch_rule(args, dims, out_avals, **kw):
    size = next(a.shape[d] for a, d in zip(args, dims) if d is not None)
    rows = []
    for i in range(size):
      row_args = [a if d is None else jnp.take(a, i, axis=d) for a, d in zip(args, dims)]
      rows.append(p.bind(*row_args, out_avals=out_avals, **kw))
    outs = [jnp.stack([r[k] for r in rows]) for k in range(len(out_avals))]
    return outs, [0] * len(outs)
  batching.primitive_batchers[p] = batch_rule
  sj.UF_HANDLERS[full] = _handler(full, nanable)
  _PRIMS[full] = p
  return p


def uf_call(p, out_like, *operands, tag=''):
  """Bind uninterpreted primitive: outputs shaped like out_like (pytree of arrays/ShapeDtypeStructs)."""
  flat = [jnp.asarray(x) if not hasattr(x, 'shape') else x for x in jax.tree_util.tree_leaves(operands)]
  flat = [jax.random.key_data(x) if jax.dtypes.issubdtype(x.dtype, jax.dtypes.prng_key) else x for x in flat]
  leaves, tree = jax.tree_util.tree_flatten(out_like)
  out_avals = tuple((tuple(l.shape), np.dtype(l.dtype)) for l in leaves)
  outs = p.bind(*flat, out_avals=out_avals, tag=tag)
  return jax.tree_util.tree_unflatten(tree, outs)


# ---- differentiable uninterpreted loss -------------------------------------------------
def make_uf_loss(name):
  """uf_loss(params_flat, example_flat, key) -> scalar, with JVP <uf_dloss(...), dparams>."""
  loss_p = make_uf(name)
  dloss_p = make_uf('d' + name)

  def jvp(primals, tangents, out_avals, tag, nparams):
    out = loss_p.bind(*primals, out_avals=out_avals, tag=tag, nparams=nparams)
    pavals = tuple((tuple(x.shape), np.dtype(x.dtype)) for x in primals[:nparams])
    gs = dloss_p.bind(*primals, out_avals=pavals, tag=tag)
    tout = None
    for g, t in zip(gs, tangents[:nparams]):
      if type(t) is ad.Zero:
        continue
      term = jnp.sum(g * t)
      tout = term if tout is None else tout + term
    for t in tangents[nparams:]:
      if type(t) is not ad.Zero:
        raise sj.Unsupported('uninterpreted loss differentiated w.r.t. a non-parameter')
    if tout is None:
      tout = ad.Zero.from_primal_value(out[0])
    return out, [tout]
  ad.primitive_jvps[loss_p] = jvp

  def loss(params, example, key=None, tag=''):
    pl = jax.tree_util.tree_leaves(params)
    el = jax.tree_util.tree_leaves(example)
    kl = [] if key is None else [jax.random.key_data(key) if jax.dtypes.issubdtype(key.dtype, jax.dtypes.prng_key) else key]
    (out,) = loss_p.bind(*pl, *el, *kl, out_avals=(((), np.dtype(np.float32)),), tag=tag, nparams=len(pl))
    return out

  def dloss(params, example, key=None, tag=''):
    """The gradient UF exactly as the JVP rule binds it (for references)."""
    pl, tree = jax.tree_util.tree_flatten(params)
    el = jax.tree_util.tree_leaves(example)
    kl = [] if key is None else [jax.random.key_data(key) if jax.dtypes.issubdtype(key.dtype, jax.dtypes.prng_key) else key]
    pavals = tuple((tuple(x.shape), np.dtype(x.dtype)) for x in pl)
    gs = dloss_p.bind(*pl, *el, *kl, out_avals=pavals, tag=tag)
    return jax.tree_util.tree_unflatten(tree, gs)
  loss.grad = dloss
  return loss, loss_p, dloss_p


# ---- realisation of a model's function interpretation for replay --------------------------
def _val(v):
  if z3.is_rational_value(v):
    return float(Fraction(v.numerator_as_long(), v.denominator_as_long()))
  if z3.is_int_value(v):
    return float(v.as_long())
  if z3.is_algebraic_value(v):
    return float(v.approx(20).as_fraction())
  if z3.is_true(v):
    return 1.0
  if z3.is_false(v):
    return 0.0
  raise ValueError(str(v))


def realise_from_model(ctx, model, prim_names, key_code_of=None):
  """Install nearest-neighbour table implementations of the UFs from a z3 model."""
  tables = {}
  for (fname, arity), F in ctx.ufs.items():
    interp = model.get_interp(F) if arity > 0 else None
    if arity == 0:
      continue
    if interp is None:
      tables[fname] = ([], 0.0)
      continue
    entries = []
    for i in range(interp.num_entries()):
      e = interp.entry(i)
      try:
        entries.append(([_val(e.arg_value(j)) for j in range(arity)], _val(e.value())))
      except ValueError:
        pass
    try:
      els = _val(interp.else_value())
    except Exception:   # else may be a term
      els = 0.0
    tables[fname] = (entries, els)

  def mk(full):
    def run(args, params):
      tag = params.get('tag', '')
      flat = np.concatenate([np.asarray(a, dtype=np.float64).reshape(-1) for a in args]) if args else np.zeros(0)
      outs = []
      for k, (shape, dt) in enumerate(params['out_avals']):
        size = int(np.prod(shape)) if shape else 1
        o = np.zeros(size)
        for e in range(size):
          fname = '%s%s_o%d_e%d' % (full, tag, k, e)
          entries, els = tables.get(fname, ([], 0.0))
          best, bd = els, None
          for pt, val in entries:
            d = float(np.max(np.abs(np.asarray(pt) - flat))) if len(pt) else 0.0
            if bd is None or d < bd:
              best, bd = val, d
          o[e] = best if (bd is not None and bd < 1e-4 * (1 + float(np.max(np.abs(flat))) if flat.size else 1)) else els
          nent, _ = tables.get(fname + '_isnan', ([], 0.0))
          for pt, val in nent:
            if len(pt) and float(np.max(np.abs(np.asarray(pt) - flat))) < 1e-6 and val > 0:
              o[e] = np.nan
        outs.append(o.reshape(shape))
      return outs
    return run
  for full in prim_names:
    REALISE[full] = mk(full)


def clear_realisations():
  REALISE.clear()
