"""List-based model of the numpy API that fedjax's batching / federated-data code calls (Engine X trusted base).

An array is a Python list of rows (a row is an int, a bool or a tuple for trailing dimensions) plus a dtype tag and
the trailing shape.  Randomness is an oracle TAPE: `shuffle(buf)` overwrites buf with the next tape segment of the
same length, `randint(n)` returns the next tape entry (constrained to [0, n) by the harness precondition).  The model
never branches on tape contents.  Validated against real numpy on literal inputs by `validate()`."""

bool_ = 'bool'
int32 = 'int32'
int64 = 'int64'
float32 = 'float32'
float64 = 'float64'
uint8 = 'uint8'
object_ = 'object'


class ndarray:
  def __init__(self, rows, dtype='int64', trailing=(), is_arange=False):
    self.rows = list(rows)
    self.dtype = dtype
    self.trailing = tuple(trailing)
    self.is_arange = is_arange

  # -- shape ------------------------------------------------------------------------------
  @property
  def shape(self):
    return (len(self.rows),) + self.trailing

  @property
  def size(self):
    n = len(self.rows)
    for t in self.trailing:
      n *= t
    return n

  @property
  def ndim(self):
    return 1 + len(self.trailing)

  def __len__(self):
    return len(self.rows)

  def __iter__(self):
    return iter(self.rows)

  # -- indexing ---------------------------------------------------------------------------
  def __getitem__(self, idx):
    if isinstance(idx, slice):
      return ndarray(self.rows[idx], self.dtype, self.trailing)
    if isinstance(idx, ndarray):
      if self.is_arange:      # gathering from arange(n) by an index array returns the indices (true of numpy)
        return ndarray(list(idx.rows), self.dtype, self.trailing)
      return ndarray([self.rows[i] for i in idx.rows], self.dtype, self.trailing)
    if isinstance(idx, list):
      return ndarray([self.rows[i] for i in idx], self.dtype, self.trailing)
    return self.rows[idx]

  def __setitem__(self, idx, val):
    if isinstance(idx, slice):
      vals = val.rows if isinstance(val, ndarray) else list(val)
      start, stop, step = idx.indices(len(self.rows))
      if step != 1 or stop - start != len(vals):
        raise ValueError('could not broadcast input array from shape (%d,) into shape (%d,)' % (len(vals), stop - start))
      if isinstance(val, ndarray) and val.trailing != self.trailing:
        raise ValueError('could not broadcast trailing shape %r into %r' % (val.trailing, self.trailing))
      self.rows[start:stop] = vals
      self.is_arange = False
    else:
      self.rows[idx] = val
      self.is_arange = False

  # -- elementwise ------------------------------------------------------------------------
  def _ew(self, other, fn, dtype=None):
    if isinstance(other, ndarray):
      return ndarray([fn(a, b) for a, b in zip(self.rows, other.rows)], dtype or self.dtype, self.trailing)
    return ndarray([fn(a, other) for a in self.rows], dtype or self.dtype, self.trailing)

  def __lt__(self, other):
    return self._ew(other, lambda a, b: a < b, 'bool')

  def __add__(self, other):
    return self._ew(other, lambda a, b: a + b)

  __radd__ = __add__

  def __mul__(self, other):
    return self._ew(other, lambda a, b: a * b)

  __rmul__ = __mul__

  def __sub__(self, other):
    return self._ew(other, lambda a, b: a - b)

  def __rsub__(self, other):
    return self._ew(other, lambda a, b: b - a)

  def reshape(self, shape):
    """1-D -> [-1, L] only (rows become tuples)."""
    shape = list(shape)
    if self.trailing or len(shape) != 2 or shape[0] != -1:
      raise NotImplementedError('reshape %r' % (shape,))
    L = shape[1]
    if L <= 0 or len(self.rows) % L:
      raise ValueError('cannot reshape array of size %d into shape %r' % (len(self.rows), shape))
    return ndarray([tuple(self.rows[i:i + L]) for i in range(0, len(self.rows), L)], self.dtype, (L,))

  def astype(self, dtype):
    return ndarray(list(self.rows), dtype, self.trailing)

  def copy(self):
    return ndarray(list(self.rows), self.dtype, self.trailing, self.is_arange)

  def tolist(self):
    return list(self.rows)

  def __repr__(self):
    return 'ndarray(%r, %s, %r)' % (self.rows, self.dtype, self.trailing)


def _n(shape):
  if isinstance(shape, (tuple, list)):
    return shape[0], tuple(shape[1:])
  return shape, ()


def _zero_row(trailing):
  z = 0
  for t in reversed(trailing):
    z = tuple(z for _ in range(t))
  return z


def zeros(shape, dtype='float64'):
  n, tr = _n(shape)
  return ndarray([_zero_row(tr) for _ in range(n)], dtype, tr)


def ones(shape, dtype='float64'):
  n, tr = _n(shape)
  assert not tr
  return ndarray([True if dtype == 'bool' else 1 for _ in range(n)], dtype)


def full(shape, value, dtype='float64'):
  n, tr = _n(shape)
  assert not tr
  return ndarray([value for _ in range(n)], dtype)


def full_like(a, value):
  return ndarray([value for _ in a.rows], a.dtype, a.trailing)


def arange(n, dtype='int64'):
  return ndarray(list(range(n)), dtype, (), is_arange=True)


def array(x, dtype=None):
  if isinstance(x, ndarray):
    return ndarray(list(x.rows), dtype or x.dtype, x.trailing)
  return ndarray(list(x), dtype or 'int64')


asarray = array


def concatenate(arrs, axis=0):
  arrs = list(arrs)
  rows = []
  for a in arrs:
    if a.trailing != arrs[0].trailing:
      raise ValueError('all the input array dimensions except for the concatenation axis must match exactly')
    rows.extend(a.rows)
  return ndarray(rows, arrs[0].dtype, arrs[0].trailing)


def array_equal(a, b):
  return a.shape == b.shape and a.rows == b.rows


# ---- randomness: oracle tape -------------------------------------------------------------------------
class Tape:
  """Shared by all generators constructed from the same seed (determinism of numpy's generator is the contract).
  A generator built with seed None is UNSEEDED: it reads from a global position that never rewinds, so two unseeded
  generators see different draws."""
  data = []
  log = []       # ('shuffle', length, start) / ('randint', n, pos)
  unseeded_pos = 0
  mode = 'tape'


class _RandomState:
  def __init__(self, seed=None):
    self.seed_value = seed
    self.pos = 0
    self.unseeded_id = 0
    if seed is None:
      Tape.unseeded_pos += 1000
      self.pos = Tape.unseeded_pos
      self.unseeded_id = Tape.unseeded_pos // 1000

  def seed(self, seed=None):
    self.__init__(seed)

  def shuffle(self, buf):
    rows = buf.rows if isinstance(buf, ndarray) else buf
    n = len(rows)
    if Tape.mode == 'det':        # tape-free deterministic mode: seeded = rotate by 1, k-th unseeded generator = rotate by k+1
      r = (1 + self.unseeded_id) % n if n else 0
      rows[:] = rows[r:] + rows[:r]
    else:
      seg = Tape.data[self.pos:self.pos + n]
      if len(seg) != n:
        raise IndexError('oracle tape exhausted')
      Tape.log.append(('shuffle', n, self.pos))
      self.pos += n
      if isinstance(buf, ndarray):
        rows[:] = seg                 # index buffers: the segment IS the shuffled content (never branched on)
      else:
        rows[:] = [rows[p] for p in seg]   # item lists: the segment is a permutation of positions (precondition)
    if isinstance(buf, ndarray):
      buf.is_arange = False

  def randint(self, n):
    if Tape.mode == 'det':
      return self.unseeded_id % n
    v = Tape.data[self.pos]
    Tape.log.append(('randint', n, self.pos))
    self.pos += 1
    return v

  def choice(self, a, size=None, replace=True):
    rows = a.rows if isinstance(a, ndarray) else list(a)
    n = len(rows)
    seg = Tape.data[self.pos:self.pos + n]
    Tape.log.append(('choice', n, self.pos))
    self.pos += n
    return ndarray([rows[i] for i in seg[:size]], getattr(a, 'dtype', 'object'))


class random:
  RandomState = _RandomState


class _TapeData(list):
  """Reads beyond the recorded tape (unseeded generators) return an out-of-band marker value."""

  def __getitem__(self, i):
    if isinstance(i, slice):
      return [self[j] for j in range(*i.indices(max(len(self), (i.stop or 0))))]
    if i >= len(self):
      return -1000 - i
    return list.__getitem__(self, i)


def set_tape(data):
  Tape.data = _TapeData(data or [])
  Tape.log = []
  Tape.unseeded_pos = 0
  Tape.mode = 'tape' if data is not None else 'det'


def validate():
  """Compare the model with real numpy on literal inputs (run at the start of every check)."""
  import numpy as real
  problems = []
  a, ra = ndarray([5, 6, 7, 8, 9]), real.array([5, 6, 7, 8, 9])
  idx, ridx = ndarray([3, 0, 3]), real.array([3, 0, 3])
  checks = [
      (a[1:3].rows, ra[1:3].tolist()), (a[4:9].rows, ra[4:9].tolist()), (a[idx].rows, ra[ridx].tolist()),
      (arange(4)[ndarray([2, 2, 0])].rows, real.arange(4)[real.array([2, 2, 0])].tolist()),
      ((arange(5) < 3).rows, (real.arange(5) < 3).tolist()), (concatenate([a[:2], a[3:]]).rows, real.concatenate([ra[:2], ra[3:]]).tolist()),
      (zeros((2, 3), 'int32').shape, real.zeros((2, 3), 'int32').shape), (ones([3], 'bool').rows, real.ones([3], bool).tolist()),
      ((a * 2 + 1).rows, (ra * 2 + 1).tolist()), (a[:0].shape, ra[:0].shape),
  ]
  for i, (m, r) in enumerate(checks):
    if list(m) != list(r):
      problems.append('np_lite check %d: %r vs numpy %r' % (i, m, r))
  z, rz = zeros((4,), 'int32'), real.zeros((4,), 'int32')
  z[1:3] = a[0:2]
  rz[1:3] = ra[0:2]
  if z.rows != rz.tolist():
    problems.append('slice assignment')
  try:
    z[0:3] = a[0:2]
    problems.append('slice assignment with mismatched length accepted')
  except ValueError:
    pass
  # numpy's shuffle returns a permutation of its argument; randint(n) lies in [0, n)
  rs = real.random.RandomState(3)
  for n in (1, 2, 5):
    b = real.arange(n)
    rs.shuffle(b)
    if sorted(b.tolist()) != list(range(n)):
      problems.append('numpy shuffle is not a permutation?!')
    if not 0 <= rs.randint(n) < n:
      problems.append('numpy randint out of range?!')
  b1, b2 = real.arange(6), real.arange(6)
  real.random.RandomState(7).shuffle(b1)
  real.random.RandomState(7).shuffle(b2)
  if b1.tolist() != b2.tolist():
    problems.append('numpy RandomState not deterministic per seed?!')
  return problems
