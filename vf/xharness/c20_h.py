"""CrossHair harness for C20 (Engine X part): Shakespeare tokeniser, its look-up table, EMNIST domain ids."""
from typing import List

import fedjax.datasets.shakespeare  # noqa: real packages first
import fedjax.datasets.emnist  # noqa
import adapters
import np_lite
import xload

S = adapters.load_model_stack()
SH = xload.load_real('fedjax/datasets/shakespeare.py', 'sh_sym', {'numpy': np_lite},
                     attr_overrides={('fedjax.core', 'client_datasets'): S['cd'], ('fedjax.core', 'federated_data'): S['fd']})
VOCAB = b'dhlptx@DHLPTX $(,048cgkoswCGKOSW[_#\'/37;?bfjnrvzBFJNRVZ"&*.26:\naeimquyAEIMQUY]!%)-159\r'
BYTES = [ord('a'), ord('d'), ord('\r'), 2, ord('~'), 3]      # in-vocabulary (first/last vocab entries included) and out-of-vocabulary bytes,
# two of which (2, 3) coincide numerically with the EOS / first-character label ids


def expected_label(b):
  """documented: vocab[i] -> 3 + i (last occurrence), anything else -> OOV = vocab size - 1; PAD/BOS/EOS = 0/1/2."""
  idx = VOCAB.rfind(bytes([b]))
  return 3 + idx if idx >= 0 else 3 + len(VOCAB)


def check_table(sh, rows_of, b):
  t = rows_of(sh.TABLE)
  v = t[b]
  return (sh.VOCAB_SIZE == len(VOCAB) + 4 and sh.OOV == sh.VOCAB_SIZE - 1 and (sh.PAD, sh.BOS, sh.EOS) == (0, 1, 2)
          and 0 <= v < sh.VOCAB_SIZE and v == expected_label(b) and len(t) == 256)


def check_tokenizer(sh, A, snippets, L):
  """snippets: list of lists of byte values."""
  out = sh.preprocess_client(b'cid', {'snippets': [bytes(s) if A is not adapters.ModelNP else list(s) for s in snippets]}, L)
  xs, ys = A.rows(out['x']), A.rows(out['y'])
  if A.trailing(out['x']) != (L,) or A.trailing(out['y']) != (L,) or len(xs) != len(ys):
    return False
  fx = [v for r in xs for v in r]
  fy = [v for r in ys for v in r]
  stream = []
  for s in snippets:
    stream += [sh.BOS] + [expected_label(b) for b in s] + [sh.EOS]
  n = len(stream) - 1                      # number of (input, target) pairs
  if n < 0:
    return len(fx) == 0
  if len(fx) != ((n + L - 1) // L) * L:    # padded to a multiple of the sequence length, no more
    return False
  if fx[:n] != stream[:-1] or fy[:n] != stream[1:]:       # targets = inputs shifted by one, nothing lost
    return False
  if any(v != sh.PAD for v in fx[n:]) or any(v != sh.PAD for v in fy[n:]):   # padding only at the tail
    return False
  return all(0 <= v < sh.VOCAB_SIZE for v in fx + fy)


def _rows(a):
  return a.rows


def concrete(x, lo, hi):
  """Branch on a small symbolic int so that the rest of the path runs on a concrete Python int."""
  for v in range(lo, hi + 1):
    if x == v:
      return v
  raise ValueError(x)


def table(b: int) -> bool:
  """
  pre: 0 <= b <= 255
  post: __return__
  """
  return check_table(SH, _rows, b)


def tokenizer(lens: List[int], c0: int, L: int) -> bool:
  """
  pre: len(lens) <= 3
  pre: all(0 <= n <= 2 for n in lens)
  pre: 0 <= c0 <= 5
  pre: 2 <= L <= 4
  post: __return__
  """
  c0, L = concrete(c0, 0, 5), concrete(L, 2, 4)
  lens = [concrete(n, 0, 2) for n in lens[:concrete(len(lens), 0, 3)]]
  cs = [BYTES[c0], BYTES[(c0 + 1) % 6], BYTES[(c0 + 3) % 6], BYTES[(c0 + 4) % 6]]
  snippets, k = [], 0
  for n in lens:
    snippets.append([cs[(k + j) % 4] for j in range(n)])
    k += n
  return check_tokenizer(SH, adapters.ModelNP, snippets, L)


def tokenizer_reach(lens: List[int], c0: int, L: int) -> bool:
  """
  pre: len(lens) <= 3
  pre: all(0 <= n <= 2 for n in lens)
  pre: 0 <= c0 <= 5
  pre: 2 <= L <= 4
  post: not __return__
  """
  c0, L = concrete(c0, 0, 5), concrete(L, 2, 4)
  lens = [concrete(n, 0, 2) for n in lens[:concrete(len(lens), 0, 3)]]
  cs = [BYTES[c0], BYTES[(c0 + 1) % 6], BYTES[(c0 + 3) % 6], BYTES[(c0 + 4) % 6]]
  snippets, k = [], 0
  for n in lens:
    snippets.append([cs[(k + j) % 4] for j in range(n)])
    k += n
  return check_tokenizer(SH, adapters.ModelNP, snippets, L)


# ---- EMNIST domain id: the number parsed from a well-formed id is symbolic (int() modelled) ----------------------
_NUM = [0]


def _int_model(x, *a):
  if isinstance(x, (bytes, str)) and x in (b'0000', '0000'):       # the writer-number field of the id built below
    return _NUM[0]
  return int(x, *a)


EM = xload.load_real('fedjax/datasets/emnist.py', 'em_sym', post=lambda m: setattr(m, 'int', _int_model))


HASHES = [b'', b'0123456789abcdef:', b'a1f2300bcd45e678:', b'a1f9300bcd45e6f8:']     # short form; plain hash; hashes containing decoy "f<4 digits>" fields


def domain(n: int, form: int) -> bool:
  """
  pre: 0 <= n <= 9999
  pre: 0 <= form <= 3
  post: __return__
  """
  _NUM[0] = n
  cid = HASHES[concrete(form, 0, 3)] + b'f0000_00'
  return EM.domain_id(cid) == (0 if 2100 <= n <= 2599 else 1)
