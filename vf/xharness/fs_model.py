"""File-system models with crash injection (Engine X trusted base).

Every effect (create/truncate, write, rename, remove, and the harness's own step ticks) increments a counter; when it
equals `crash_at` the operation raises Crash.  A crashing write first appends a prefix (`cut` bytes) of its data.  The
state after a crash is what a POSIX file system shows: no torn rename, earlier effects are durable.

ModelFS keeps files in a dict (CrossHair); DiskFS performs the same operations on a real temporary directory (replay).
Both expose the subset of tf.io.gfile / os / builtins.open that fedjax uses."""
import fnmatch
import glob as _glob
import io
import os
import shutil
import tempfile


class Crash(BaseException):
  """The process dies here.  Not an `Exception`: a kill does not run `except Exception:` handlers (context managers and
  `finally:` blocks still run in this model -- their file-system effects after the crash point raise Crash again)."""


def VSCALE(v):
  """virtual size -> stored (scaled) size; identity unless a harness represents large blocks by a few bytes (C19)."""
  return v


class BaseFS:
  def __init__(self):
    self.effects = 0
    self.crash_at = -1
    self.cut = 0
    self.log = []

  def tick(self, what=''):
    self.log.append(what)
    if self.effects == self.crash_at:
      self.effects += 1
      raise Crash(what)
    self.effects += 1

  def arm(self, crash_at, cut=0):
    self.crash_at = crash_at if crash_at is None or crash_at < 0 else self.effects + crash_at
    if crash_at is None:
      self.crash_at = -1
    self.cut = cut


class ModelFS(BaseFS):
  """files: path -> handle ({'data': bytes}); an open writer keeps its handle, so a rename does not detach it (inode semantics)."""

  def __init__(self):
    super().__init__()
    self.files = {}

  # primitive operations
  def create(self, path):
    self.tick('create ' + path)
    h = {'data': b'', 'vsize': 0}
    self.files[path] = h
    return h

  def open_append(self, path):
    self.tick('open-append ' + path)
    return self.files[path]

  def append(self, handle, data, vlen=None, pos=None, vpos=None):
    """Write `data` at stored offset `pos` (default: the end); `vlen`/`vpos` are the virtual length / offset."""
    vlen = len(data) if vlen is None else vlen
    old = handle['data']
    pos = len(old) if pos is None else pos
    vpos = handle.get('vsize', len(old)) if vpos is None else vpos

    def put(d, v):
      handle['data'] = old[:pos] + d + old[pos + len(d):]
      handle['vsize'] = max(handle.get('vsize', len(old)), vpos + v)
    try:
      self.tick('write')
    except Crash:
      k = min(self.cut, len(data))
      put(data[:k], k if vlen == len(data) else 0)
      raise
    put(data, vlen)

  def truncate(self, handle, ssize, vsize):
    self.tick('truncate')
    d = handle['data']
    handle['data'] = d[:ssize] + b'\0' * max(0, ssize - len(d))
    handle['vsize'] = vsize

  def close(self, handle):
    pass

  def read(self, path):
    if path not in self.files:
      raise FileNotFoundError(path)
    return self.files[path]['data']

  def rename(self, src, dst):
    if src not in self.files:
      raise FileNotFoundError(src)
    self.tick('rename %s %s' % (src, dst))
    self.files[dst] = self.files.pop(src)

  def remove(self, path):
    if path not in self.files:
      raise FileNotFoundError(path)
    self.tick('remove ' + path)
    del self.files[path]

  def exists(self, path):
    return path in self.files

  def listing(self):
    return sorted(self.files)

  def glob(self, pattern):
    return sorted(p for p in self.files if fnmatch.fnmatchcase(p, pattern))

  def size(self, path):
    if path not in self.files:
      raise FileNotFoundError(path)
    h = self.files[path]
    return h.get('vsize', len(h['data']))


class _DiskHandle:
  """A real unbuffered file object plus the bookkeeping DiskFS needs (current path, virtual size)."""

  def __init__(self, f, path):
    self.f, self.vpath, self.vsize = f, [path], 0

  def __getattr__(self, name):
    return getattr(self.f, name)


class DiskFS(BaseFS):
  """Same interface on a real temporary directory; paths given by the code are mapped below the temp root.  Writers keep a
  real unbuffered file descriptor open (so a rename does not detach them)."""

  def __init__(self):
    super().__init__()
    self.root = tempfile.mkdtemp(prefix='vf_fs_')
    self.vsizes = {}       # real path -> virtual size, only where it differs from the real size (scaled payloads)
    self.handles = []      # open writers (a rename moves the file they write to)

  def _p(self, path):
    return os.path.join(self.root, path.lstrip('/'))

  def create(self, path):
    self.tick('create ' + path)
    os.makedirs(os.path.dirname(self._p(path)), exist_ok=True)
    self.vsizes.pop(self._p(path), None)
    f = _DiskHandle(open(self._p(path), 'wb', buffering=0), self._p(path))
    self.handles.append(f)
    return f

  def open_append(self, path):
    self.tick('open-append ' + path)
    f = _DiskHandle(open(self._p(path), 'r+b', buffering=0), self._p(path))
    f.seek(0, 2)
    self.handles.append(f)
    return f

  def _bump(self, handle, vend):
    p = handle.vpath[0]
    v = max(self.vsizes.get(p, 0), vend)
    self.vsizes[p] = v
    handle.vsize = v

  def append(self, handle, data, vlen=None, pos=None, vpos=None):
    vlen = len(data) if vlen is None else vlen
    if pos is not None:
      handle.seek(pos)
    else:
      handle.seek(0, 2)
    vpos = getattr(handle, 'vsize', self.vsizes.get(handle.vpath[0], 0)) if vpos is None else vpos
    try:
      self.tick('write')
    except Crash:
      k = min(self.cut, len(data))
      handle.write(data[:k])
      self._bump(handle, vpos + (k if vlen == len(data) else 0))
      raise
    handle.write(data)
    self._bump(handle, vpos + vlen)

  def truncate(self, handle, ssize, vsize):
    self.tick('truncate')
    handle.truncate(ssize)
    self.vsizes[handle.vpath[0]] = vsize
    handle.vsize = vsize

  def close(self, handle):
    handle.close()

  def read(self, path):
    with open(self._p(path), 'rb') as f:
      return f.read()

  def rename(self, src, dst):
    if not os.path.exists(self._p(src)):
      raise FileNotFoundError(src)
    self.tick('rename %s %s' % (src, dst))
    os.replace(self._p(src), self._p(dst))
    self.vsizes.pop(self._p(dst), None)
    if self._p(src) in self.vsizes:
      self.vsizes[self._p(dst)] = self.vsizes.pop(self._p(src))
    for h in self.handles:          # an open writer follows its file
      if h.vpath[0] == self._p(src):
        h.vpath[0] = self._p(dst)

  def remove(self, path):
    if not os.path.exists(self._p(path)):
      raise FileNotFoundError(path)
    self.tick('remove ' + path)
    os.remove(self._p(path))
    self.vsizes.pop(self._p(path), None)

  def exists(self, path):
    return os.path.exists(self._p(path))

  def listing(self):
    out = []
    for d, _, fs in os.walk(self.root):
      for f in fs:
        out.append('/' + os.path.relpath(os.path.join(d, f), self.root))
    return sorted(out)

  def glob(self, pattern):
    return sorted('/' + os.path.relpath(p, self.root) for p in _glob.glob(self._p(pattern)))

  def size(self, path):
    real = os.path.getsize(self._p(path))
    return self.vsizes.get(self._p(path), real)

  def cleanup(self):
    shutil.rmtree(self.root, ignore_errors=True)


# ---- file objects and API facades ---------------------------------------------------------------------------
BUFFER = 8192      # io.BufferedWriter default: smaller writes stay in memory until flush/close; a crash loses them


class VBytes(bytes):
  """A few real bytes standing for a (virtual) longer run: `vlen` drives the buffering decision, the content stays tiny."""
  vlen = 0

  def __new__(cls, data, vlen):
    o = bytes.__new__(cls, data)
    o.vlen = vlen
    return o


class _Writer:
  """A buffered binary/text writer with a file position (stored offset `pos`, virtual offset `vpos`)."""

  def __init__(self, fs, path, text, append=False, exclusive=False):
    self.fs, self.path, self.text = fs, path, text
    if exclusive and fs.exists(path):
      raise FileExistsError(17, 'File exists', path)
    if append and fs.exists(path):
      self.handle = fs.open_append(path)
      self.pos, self.vpos = len(fs.read(path)), fs.size(path)
    else:
      self.handle = fs.create(path)
      self.pos, self.vpos = 0, 0
    self.closed = False
    self.pending = b''
    self.pending_v = 0

  def _emit(self, out, vlen):
    pos, vpos = self.pos, self.vpos
    self.pos, self.vpos = pos + len(out), vpos + vlen
    self.fs.append(self.handle, out, vlen, pos, vpos)

  def write(self, data):
    if self.text:
      data = data.encode()
    vlen = getattr(data, 'vlen', len(data))
    data = bytes(data)
    if self.pending_v + vlen < BUFFER:
      self.pending = self.pending + data        # memory only: not an effect
      self.pending_v += vlen
    else:
      out, v, self.pending, self.pending_v = self.pending + data, self.pending_v + vlen, b'', 0
      self._emit(out, v)
    return len(data)

  def flush(self):
    if self.pending:
      out, v, self.pending, self.pending_v = self.pending, self.pending_v, b'', 0
      self._emit(out, v)

  def tell(self):
    return self.vpos + self.pending_v

  def seek(self, offset, whence=0):
    self.flush()
    if whence == 0 and offset == 0:
      self.pos = self.vpos = 0
    elif whence == 2 and offset == 0:
      self.pos, self.vpos = len(self.fs.read(self.path)) if self.fs.exists(self.path) else self.pos, self.fs.size(self.path) if self.fs.exists(self.path) else self.vpos
    elif not (whence == 1 and offset == 0):
      raise NotImplementedError('seek(%r, %r) is outside the file model' % (offset, whence))
    return self.vpos

  def truncate(self, size=None):
    """Resize to `size` bytes (default: the current position); the position does not move (as in io)."""
    self.flush()
    vsize = self.vpos if size is None else size
    self.fs.truncate(self.handle, VSCALE(vsize), vsize)
    return vsize

  def close(self):
    if not self.closed:
      self.closed = True
      try:
        self.flush()
      finally:
        self.fs.close(self.handle)

  def __enter__(self):
    return self

  def __exit__(self, *a):
    if a and a[0] is not None and issubclass(a[0], Crash):
      self.closed = True      # the process died: buffered data is lost
      self.fs.close(self.handle)
      return False
    self.close()
    return False


class _Reader(io.BytesIO):
  def __enter__(self):
    return self

  def __exit__(self, *a):
    return False


def open_file(fs, path, mode='r'):
  if 'w' in mode or 'a' in mode or 'x' in mode:
    return _Writer(fs, path, 'b' not in mode, append='a' in mode, exclusive='x' in mode)
  data = fs.read(path)
  if 'b' in mode:
    return _Reader(data)
  return io.StringIO(data.decode())


class GFileModule:
  """tf.io.gfile facade."""

  def __init__(self, fs):
    self.fs = fs

  def GFile(self, path, mode='r'):
    return open_file(self.fs, path, mode)

  def glob(self, pattern):
    return self.fs.glob(pattern)

  def remove(self, path):
    self.fs.remove(path)

  def rename(self, src, dst, overwrite=False):
    if self.fs.exists(dst) and not overwrite:
      raise FileExistsError(dst)
    self.fs.rename(src, dst)

  def makedirs(self, d):
    pass

  def exists(self, path):
    return self.fs.exists(path)


class FakeTF:
  def __init__(self, fs):
    class IO:
      pass
    self.io = IO()
    self.io.gfile = GFileModule(fs)


class OSPathFacade:
  def __init__(self, fs):
    self.fs = fs
    self.join = os.path.join
    self.basename = os.path.basename
    self.dirname = os.path.dirname

  def exists(self, p):
    return self.fs.exists(p)

  def isfile(self, p):
    return self.fs.exists(p)

  def splitext(self, p):
    return os.path.splitext(p)

  def expanduser(self, p):
    return '/home/u' + p[1:] if p.startswith('~') else p

  def getsize(self, p):
    return self.fs.size(p)


class OSFacade:
  """os facade (path.exists, rename, remove, makedirs)."""

  def __init__(self, fs):
    self.fs = fs
    self.path = OSPathFacade(fs)
    self.sep = os.sep

  def rename(self, src, dst):
    self.fs.rename(src, dst)

  def replace(self, src, dst):
    self.fs.rename(src, dst)

  def remove(self, p):
    self.fs.remove(p)

  def makedirs(self, d, exist_ok=False):
    pass

  def getenv(self, *a):
    return os.getenv(*a)
