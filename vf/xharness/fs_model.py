"""File-system models with crash injection (Engine X trusted base).

Every effect (create/truncate, write, rename, remove, and the harness's own step ticks) increments a counter; when it
equals `crash_at` the operation raises Crash.  A crashing write first appends a prefix (`cut` bytes) of its data.  The
state after a crash is what a POSIX file system shows: no torn rename, earlier effects are durable.

ModelFS keeps files in a dict (CrossHair); DiskFS performs the same operations on a real temporary directory (replay).
Both expose the subset of tf.io.gfile / os / builtins.open that fedjax uses."""
import fnmatch
import glob as _glob
import io
import os
import shutil
import tempfile


class Crash(Exception):
  pass


class BaseFS:
  def __init__(self):
    self.effects = 0
    self.crash_at = -1
    self.cut = 0
    self.log = []

  def tick(self, what=''):
    self.log.append(what)
    if self.effects == self.crash_at:
      self.effects += 1
      raise Crash(what)
    self.effects += 1

  def arm(self, crash_at, cut=0):
    self.crash_at = crash_at if crash_at is None or crash_at < 0 else self.effects + crash_at
    if crash_at is None:
      self.crash_at = -1
    self.cut = cut


class ModelFS(BaseFS):
  """files: path -> handle ({'data': bytes}); an open writer keeps its handle, so a rename does not detach it (inode semantics)."""

  def __init__(self):
    super().__init__()
    self.files = {}

  # primitive operations
  def create(self, path):
    self.tick('create ' + path)
    h = {'data': b''}
    self.files[path] = h
    return h

  def open_append(self, path):
    self.tick('open-append ' + path)
    return self.files[path]

  def append(self, handle, data):
    try:
      self.tick('write')
    except Crash:
      handle['data'] = handle['data'] + data[:min(self.cut, len(data))]
      raise
    handle['data'] = handle['data'] + data

  def close(self, handle):
    pass

  def read(self, path):
    if path not in self.files:
      raise FileNotFoundError(path)
    return self.files[path]['data']

  def rename(self, src, dst):
    if src not in self.files:
      raise FileNotFoundError(src)
    self.tick('rename %s %s' % (src, dst))
    self.files[dst] = self.files.pop(src)

  def remove(self, path):
    if path not in self.files:
      raise FileNotFoundError(path)
    self.tick('remove ' + path)
    del self.files[path]

  def exists(self, path):
    return path in self.files

  def listing(self):
    return sorted(self.files)

  def glob(self, pattern):
    return sorted(p for p in self.files if fnmatch.fnmatchcase(p, pattern))

  def size(self, path):
    return len(self.read(path))


class DiskFS(BaseFS):
  """Same interface on a real temporary directory; paths given by the code are mapped below the temp root.  Writers keep a
  real unbuffered file descriptor open (so a rename does not detach them)."""

  def __init__(self):
    super().__init__()
    self.root = tempfile.mkdtemp(prefix='vf_fs_')

  def _p(self, path):
    return os.path.join(self.root, path.lstrip('/'))

  def create(self, path):
    self.tick('create ' + path)
    os.makedirs(os.path.dirname(self._p(path)), exist_ok=True)
    return open(self._p(path), 'wb', buffering=0)

  def open_append(self, path):
    self.tick('open-append ' + path)
    return open(self._p(path), 'ab', buffering=0)

  def append(self, handle, data):
    try:
      self.tick('write')
    except Crash:
      handle.write(data[:min(self.cut, len(data))])
      raise
    handle.write(data)

  def close(self, handle):
    handle.close()

  def read(self, path):
    with open(self._p(path), 'rb') as f:
      return f.read()

  def rename(self, src, dst):
    if not os.path.exists(self._p(src)):
      raise FileNotFoundError(src)
    self.tick('rename %s %s' % (src, dst))
    os.replace(self._p(src), self._p(dst))

  def remove(self, path):
    if not os.path.exists(self._p(path)):
      raise FileNotFoundError(path)
    self.tick('remove ' + path)
    os.remove(self._p(path))

  def exists(self, path):
    return os.path.exists(self._p(path))

  def listing(self):
    out = []
    for d, _, fs in os.walk(self.root):
      for f in fs:
        out.append('/' + os.path.relpath(os.path.join(d, f), self.root))
    return sorted(out)

  def glob(self, pattern):
    return sorted('/' + os.path.relpath(p, self.root) for p in _glob.glob(self._p(pattern)))

  def size(self, path):
    return os.path.getsize(self._p(path))

  def cleanup(self):
    shutil.rmtree(self.root, ignore_errors=True)


# ---- file objects and API facades ---------------------------------------------------------------------------
BUFFER = 8192      # io.BufferedWriter default: smaller writes stay in memory until flush/close; a crash loses them


class VBytes(bytes):
  """A few real bytes standing for a (virtual) longer run: `vlen` drives the buffering decision, the content stays tiny."""
  vlen = 0

  def __new__(cls, data, vlen):
    o = bytes.__new__(cls, data)
    o.vlen = vlen
    return o


class _Writer:
  def __init__(self, fs, path, text, append=False):
    self.fs, self.path, self.text = fs, path, text
    if append and fs.exists(path):
      self.handle = fs.open_append(path)
    else:
      self.handle = fs.create(path)
    self.closed = False
    self.pending = b''
    self.pending_v = 0

  def write(self, data):
    if self.text:
      data = data.encode()
    vlen = getattr(data, 'vlen', len(data))
    data = bytes(data)
    if self.pending_v + vlen < BUFFER:
      self.pending = self.pending + data        # memory only: not an effect
      self.pending_v += vlen
    else:
      out, self.pending, self.pending_v = self.pending + data, b'', 0
      self.fs.append(self.handle, out)
    return len(data)

  def flush(self):
    if self.pending:
      out, self.pending, self.pending_v = self.pending, b'', 0
      self.fs.append(self.handle, out)

  def close(self):
    if not self.closed:
      self.closed = True
      try:
        self.flush()
      finally:
        self.fs.close(self.handle)

  def __enter__(self):
    return self

  def __exit__(self, *a):
    if a and a[0] is not None and issubclass(a[0], Crash):
      self.closed = True      # the process died: buffered data is lost
      self.fs.close(self.handle)
      return False
    self.close()
    return False


class _Reader(io.BytesIO):
  def __enter__(self):
    return self

  def __exit__(self, *a):
    return False


def open_file(fs, path, mode='r'):
  if 'w' in mode or 'a' in mode:
    return _Writer(fs, path, 'b' not in mode, append='a' in mode)
  data = fs.read(path)
  if 'b' in mode:
    return _Reader(data)
  return io.StringIO(data.decode())


class GFileModule:
  """tf.io.gfile facade."""

  def __init__(self, fs):
    self.fs = fs

  def GFile(self, path, mode='r'):
    return open_file(self.fs, path, mode)

  def glob(self, pattern):
    return self.fs.glob(pattern)

  def remove(self, path):
    self.fs.remove(path)

  def rename(self, src, dst, overwrite=False):
    if self.fs.exists(dst) and not overwrite:
      raise FileExistsError(dst)
    self.fs.rename(src, dst)

  def makedirs(self, d):
    pass

  def exists(self, path):
    return self.fs.exists(path)


class FakeTF:
  def __init__(self, fs):
    class IO:
      pass
    self.io = IO()
    self.io.gfile = GFileModule(fs)


class OSPathFacade:
  def __init__(self, fs):
    self.fs = fs
    self.join = os.path.join
    self.basename = os.path.basename
    self.dirname = os.path.dirname

  def exists(self, p):
    return self.fs.exists(p)

  def isfile(self, p):
    return self.fs.exists(p)

  def splitext(self, p):
    return os.path.splitext(p)

  def expanduser(self, p):
    return '/home/u' + p[1:] if p.startswith('~') else p

  def getsize(self, p):
    return self.fs.size(p)


class OSFacade:
  """os facade (path.exists, rename, remove, makedirs)."""

  def __init__(self, fs):
    self.fs = fs
    self.path = OSPathFacade(fs)
    self.sep = os.sep

  def rename(self, src, dst):
    self.fs.rename(src, dst)

  def replace(self, src, dst):
    self.fs.rename(src, dst)

  def remove(self, p):
    self.fs.remove(p)

  def makedirs(self, d, exist_ok=False):
    pass

  def getenv(self, *a):
    return os.getenv(*a)
