"""CrossHair harness for C09: an interrupted experiment resumes to the uninterrupted result."""
import os
import pickle
import types
from typing import List

import fedjax.training.federated_experiment  # noqa: real packages first
import fs_model
import xload

CFG = [int(x) for x in os.environ.get('C09_CFG', '2,1,1,0').split(',')]   # num_rounds, checkpoint_frequency, keep, eval_frequency
ROOT = '/exp'


class _NoLog:
  def info(self, *a, **k):
    pass

  warning = error = debug = info


class _Time:
  @staticmethod
  def time():
    return 0.0


class _Jnp:
  class _Z:
    def block_until_ready(self):
      return self

  def zeros(self, *a, **k):
    return self._Z()


class _LoggerMod:
  class Logger:
    def __init__(self, root_dir=None):
      pass

    def log(self, *a, **k):
      pass


_TF = fs_model.FakeTF(None)


def use_fs(fs):
  _TF.io.gfile.fs = fs


def _load_stack():
  """The real serialization / checkpoint / federated_experiment sources bound to the file-system facade (loaded once, at
  import time: executing module bodies under CrossHair's tracer is neither needed nor supported)."""
  tf = _TF

  def bind(extra):
    def post(mod):
      mod.tf = tf
      mod.logging = _NoLog()
      for k, v in extra.items():
        setattr(mod, k, v)
    return post
  ser = xload.load_real('fedjax/core/serialization.py', 'ser_sym', post=bind({}))
  ck = xload.load_real('fedjax/training/checkpoint.py', 'ckpt_sym', post=bind({'serialization': ser}))
  ex = xload.load_real('fedjax/training/federated_experiment.py', 'exp_sym',
                       post=bind({'checkpoint': ck, 'fedjax_logging': _LoggerMod, 'time': _Time, 'jnp': _Jnp()}))
  return ser, ck, ex


_SER, _CK, _EX = _load_stack()


def load_stack(fs):
  use_fs(fs)
  return _SER, _CK, _EX


class Sampler:
  """A round-indexed client sampler: the ids of round r are a function of r only."""

  def __init__(self):
    self._round_num = 0

  def set_round_num(self, r):
    self._round_num = r

  def sample(self):
    r = self._round_num
    self._round_num += 1
    return [((r * 7) % 5, None, None), (100 + r, None, None)]


def make_algorithm(fs):
  from fedjax.core import federated_algorithm

  def init(_):
    return ()

  def apply(state, clients):
    fs.tick('algorithm.apply')               # a crash between any two steps of the loop
    return state + (tuple(c[0] for c in clients),), {}
  return federated_algorithm.FederatedAlgorithm(init, apply)


def run_once(fs, ex, ck, violations):
  num_rounds, freq, keep, eval_freq = CFG

  class Final(ex.EvaluationFn):
    def __call__(self, state, round_num):
      fs.tick('final-eval')
      return {'rounds_applied': len(state), 'round_num': round_num}

  class Periodic(ex.EvaluationFn):
    def __call__(self, state, round_num):
      fs.tick('periodic-eval')
      return {'n': len(state)}
  real_save = ck.save_checkpoint

  def checked_save(root_dir, state, round_num=0, keep=1):
    real_save(root_dir, state, round_num, keep)
    n = len([p for p in fs.listing() if p.startswith(ROOT + '/checkpoint_') and len(p) == len(ROOT + '/checkpoint_') + 8 and p[-8:].isdigit()])
    if n > keep:
      violations.append('after save_checkpoint %d checkpoint files remain, keep=%d' % (n, keep))
  ck.save_checkpoint = checked_save
  try:
    cfg = ex.FederatedExperimentConfig(root_dir=ROOT, num_rounds=num_rounds, checkpoint_frequency=freq,
                                       num_checkpoints_to_keep=keep, eval_frequency=eval_freq)
    return ex.run_federated_experiment(make_algorithm(fs), (), Sampler(), cfg, {'p': Periodic()}, {'final': Final()})
  finally:
    ck.save_checkpoint = real_save


def visible_checkpoints_complete(fs, reference_states):
  """Any file visible under a final checkpoint name is complete: it unpickles to a state of the reference history."""
  for p in fs.listing():
    tail = p[len(ROOT + '/checkpoint_'):]
    if p.startswith(ROOT + '/checkpoint_') and len(tail) == 8 and tail.isdigit():
      try:
        st = pickle.loads(fs.read(p))
      except Exception:   # pylint: disable=broad-except
        return 'checkpoint %s is visible under its final name but is not loadable (%d bytes)' % (p, fs.size(p))
      r = int(tail)
      if r >= len(reference_states) or st != reference_states[r]:
        return 'checkpoint %s holds a state that is not the reference state after round %d' % (p, r)
  return None


def _typed(x):
  """State with leaf types: a resumed run must return the same KIND of leaves as an uninterrupted one (an int that comes back
  as a device array, or a float64 as float32, is a different final state)."""
  if isinstance(x, (tuple, list)):
    return tuple(_typed(v) for v in x)
  return (type(x).__name__, x)


def scenario(fs_factory, crashes, cut):
  """Runs the experiment, crashing at the given effect indices (relative to each attempt), then to completion."""
  # reference: never interrupted, fresh file system
  ref_fs = fs_factory()
  _, ck0, ex0 = load_stack(ref_fs)
  v0 = []
  use_fs(ref_fs)
  ref_state = run_once(ref_fs, ex0, ck0, v0)
  ref_tsv = ref_fs.read(ROOT + '/final.tsv')
  reference_states = [ref_state[:i] for i in range(len(ref_state) + 1)]
  fs = fs_factory()
  _, ck, ex = load_stack(fs)
  violations = list(v0)
  result = None
  use_fs(fs)
  for c in list(crashes) + [-1]:
    fs.arm(c, cut)
    try:
      result = run_once(fs, ex, ck, violations)
      if c < 0:
        break
      result_done = True
    except fs_model.Crash:
      result = None
    except Exception as e:   # pylint: disable=broad-except
      violations.append('re-running the experiment raised %s: %s' % (type(e).__name__, str(e)[:80]))
      break
    bad = visible_checkpoints_complete(fs, reference_states)
    if bad:
      violations.append(bad)
  fs.arm(-1)
  if not violations:
    if result != ref_state or _typed(result) != _typed(ref_state):
      violations.append('final state %r differs from the uninterrupted run %r' % (_typed(result) if result == ref_state else result, ref_state))
    elif not fs.exists(ROOT + '/final.tsv') or fs.read(ROOT + '/final.tsv') != ref_tsv:
      violations.append('final evaluation output differs from the uninterrupted run')
  for f in (ref_fs, fs):
    if hasattr(f, 'cleanup'):
      f.cleanup()
  return violations


def resume1(c1: int, cut: int) -> bool:
  """
  pre: 0 <= c1 <= 30
  pre: 0 <= cut <= 3
  post: __return__
  """
  return not scenario(fs_model.ModelFS, [c1], cut)


def resume2(c1: int, c2: int, cut: int) -> bool:
  """
  pre: 0 <= c1 <= 30
  pre: 0 <= c2 <= 30
  pre: 0 <= cut <= 2
  post: __return__
  """
  return not scenario(fs_model.ModelFS, [c1, c2], cut)


def resume_reach(c1: int, cut: int) -> bool:
  """
  pre: 0 <= c1 <= 30
  pre: 0 <= cut <= 3
  post: not __return__
  """
  return not scenario(fs_model.ModelFS, [c1], cut)
