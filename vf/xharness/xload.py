"""Load a real fedjax source file into a fresh module while selected imports resolve to models."""
import os
import sys
import types

REPO = os.environ.get('VERIF_REPO', '/repo')


def load_real(relpath, name, overrides=None, post=None, attr_overrides=None):
  path = os.path.join(REPO, relpath)
  src = open(path).read()
  mod = types.ModuleType(name)
  mod.__file__ = path
  saved = {}
  for k, v in (overrides or {}).items():
    saved[k] = sys.modules.get(k)
    sys.modules[k] = v
  sys.modules[name] = mod
  saved_attrs = []
  for (pkg, attr), v in (attr_overrides or {}).items():
    pm = sys.modules[pkg]
    saved_attrs.append((pm, attr, getattr(pm, attr, None)))
    setattr(pm, attr, v)
  try:
    exec(compile(src, path, 'exec'), mod.__dict__)   # pylint: disable=exec-used
  finally:
    for pm, attr, old in saved_attrs:
      setattr(pm, attr, old)
    for k, v in saved.items():
      if v is None:
        sys.modules.pop(k, None)
      else:
        sys.modules[k] = v
  if post:
    post(mod)
  return mod
