"""CrossHair harness for C15: centralised streams over many clients neither lose nor duplicate."""
import itertools
from typing import List

import adapters
import np_lite
from c03_h import bucket_rule

S = adapters.load_model_stack()
M = adapters.ModelNP


def concrete(x, lo, hi):
  """Branch on a small symbolic int so that the rest of the path runs on a concrete Python int."""
  for v in range(lo, hi + 1):
    if x == v:
      return v
  raise ValueError(x)


def mk_datasets(cdm, A, sizes, pre=None):
  out, start = [], 0
  for n in sizes:
    feats = {'x': A.arr(list(range(start, start + n)), 'int32')}
    out.append(cdm.ClientDataset(feats, pre) if pre is not None else cdm.ClientDataset(feats))
    start += n
  return out, start


def check_pbcd(stack, A, sizes, batch_size, buckets, gen, via_fd):
  cdm = stack['cd']
  pre = cdm.BatchPreprocessor([lambda x: {**x, 'y': x['x'] * 2 + 1}])
  dss, total = mk_datasets(cdm, A, sizes, pre)
  if via_fd:
    if not sizes:
      return True
    fd = stack['im'].InMemoryFederatedData({i: {'x': d.raw_examples['x']} for i, d in enumerate(dss)}).preprocess_batch(lambda x: {**x, 'y': x['x'] * 2 + 1})
    it = stack['fd'].padded_batch_federated_data(fd, batch_size=batch_size, num_batch_size_buckets=buckets)
  else:
    src = (d for d in dss) if gen else list(dss)
    it = cdm.padded_batch_client_datasets(src, batch_size=batch_size, num_batch_size_buckets=buckets)
  batches = list(it)
  got_x, got_y = [], []
  for i, b in enumerate(batches):
    mask = A.rows(b[cdm.EXAMPLE_MASK_KEY])
    size = len(mask)
    k = sum(1 for m in mask if m)
    if mask != [True] * k + [False] * (size - k):
      return False
    last = i == len(batches) - 1
    if not last and (size != batch_size or k != batch_size):     # every batch full except possibly the last
      return False
    if last:
      # the last batch is padded by the bucket rule; a final batch without any real row (empty clients after a batch
      # boundary, or no example at all) is tolerated: it loses / duplicates nothing (see DESIGN.md, C15 note)
      if k > batch_size or size != bucket_rule(k % batch_size, batch_size, buckets):
        return False
    xs, ys = A.rows(b['x']), A.rows(b['y'])
    if len(xs) != size or len(ys) != size or any(v != 0 for v in xs[k:]) or any(v != 0 for v in ys[k:]):
      return False
    got_x += xs[:k]
    got_y += ys[:k]
  if got_x != list(range(total)) or got_y != [v * 2 + 1 for v in range(total)]:   # concatenation in client and example order
    return False
  return total == 0 or bool(batches)


def check_mismatch(stack, A, kind, which, api, msize=1, osize=2):
  """Mismatching preprocessors / feature sets are rejected with ValueError -- also when the mismatching client (msize rows)
  or the others (osize rows) are empty."""
  cdm = stack['cd']
  p1, p2 = cdm.BatchPreprocessor([lambda x: x]), cdm.BatchPreprocessor([lambda x: x])
  dss = [cdm.ClientDataset({'x': A.arr(list(range(1, 1 + osize)), 'int32')}, p1) for _ in range(3)]
  rows = list(range(3, 3 + msize))
  if kind == 0:
    dss[which] = cdm.ClientDataset({'x': A.arr(rows, 'int32')}, p2)
  else:
    dss[which] = cdm.ClientDataset({'x': A.arr(rows, 'int32'), 'z': A.arr(rows, 'int32')}, p1)
  if which == 0:
    return True     # the first dataset defines the expectation
  try:
    if api == 0:
      list(cdm.padded_batch_client_datasets(dss, batch_size=2))
    else:
      if A is M:
        np_lite.set_tape([0] * 40)
      list(cdm.buffered_shuffle_batch_client_datasets(dss, batch_size=2, buffer_size=2, rng=A.np.random.RandomState(0)))
  except ValueError:
    return True
  return False


def check_bshuffle(stack, A, n, buffer_size, gen, tape):
  cdm = stack['cd']
  k = min(n, buffer_size)

  def run():
    if A is M:
      np_lite.set_tape(tape)
    src = (i for i in range(n)) if gen else list(range(n))
    return list(cdm.buffered_shuffle(src, buffer_size, A.np.random.RandomState(5)))
  out = run()
  if sorted(out) != list(range(n)):      # every input item exactly once
    return False
  return run() == out                    # reproducible for a fixed seed


def check_bsbcd(stack, A, sizes, batch_size, buffer_size, tape):
  cdm = stack['cd']
  dss, total = mk_datasets(cdm, A, sizes)
  if A is M:
    np_lite.set_tape(tape)
  batches = list(cdm.buffered_shuffle_batch_client_datasets((d for d in dss), batch_size=batch_size, buffer_size=buffer_size,
                                                            rng=A.np.random.RandomState(5)))
  rows = []
  for i, b in enumerate(batches):
    xs = A.rows(b['x'])
    if not xs or len(xs) > batch_size or (i < len(batches) - 1 and len(xs) != batch_size):
      return False
    rows += xs
  return sorted(rows) == list(range(total))


def check_repeat(stack, kind, n, drive):
  RI = stack['fd'].RepeatableIterator
  items = list(range(10, 10 + n))
  base = {0: items, 1: (v for v in items), 2: iter(items), 3: tuple(items)}[kind]
  it = RI(base)

  def one_pass():
    out = []
    if drive == 0:
      for v in it:
        out.append(v)
    else:                       # bare next() until StopIteration, no fresh iter()
      while True:
        try:
          out.append(next(it))
        except StopIteration:
          break
    return out
  return one_pass() == items and one_pass() == items and one_pass() == items


def check_srbfd(stack, A, sizes, batch_size, cbuf, ebuf, seed0, tape):
  """shuffle_repeat_batch_federated_data: full batches of real examples, reproducible for a fixed seed (incl. seed 0)."""
  cdm = stack['cd']
  dss, total = mk_datasets(cdm, A, sizes)
  if total == 0 or not sizes:
    return True
  fd = stack['im'].InMemoryFederatedData({i: {'x': d.raw_examples['x']} for i, d in enumerate(dss)})
  seed = 0 if seed0 else 3
  if A is M:
    np_lite.set_tape(tape)      # once: the counter of unseeded generators must keep running between the two passes

  def run():
    it = stack['fd'].shuffle_repeat_batch_federated_data(fd, batch_size=batch_size, client_buffer_size=cbuf, example_buffer_size=ebuf, seed=seed)
    return [A.rows(b['x']) for b in itertools.islice(it, 3)]
  a = run()
  if len(a) != 3 or any(len(r) != batch_size for r in a):
    return False
  if A is not M and any(not 0 <= v < total for r in a for v in r):
    return False
  return run() == a


def check_srbfd_subset(stack, A, sizes, batch_size, cbuf, o1, o2):
  """The same stream over a SubsetFederatedData wrapper: reproducible for a fixed seed in ANOTHER PROCESS too, i.e. for any
  iteration order of the wrapper's id set (o1, o2 = the set order in the two runs); every pass is a permutation of the clients."""
  cdm = stack['cd']
  dss, total = mk_datasets(cdm, A, sizes)
  if total == 0 or not sizes:
    return True
  fd = stack['im'].InMemoryFederatedData({i: {'x': d.raw_examples['x']} for i, d in enumerate(dss)})
  if A is M:
    np_lite.set_tape(None)

  def run(order):
    adapters.SET_ORDER[0] = order
    try:
      sub = stack['fd'].SubsetFederatedData(fd, list(range(len(sizes))))
      ids = [c for c, _ in itertools.islice(sub.shuffled_clients(buffer_size=cbuf, seed=3), 2 * len(sizes))]
      it = stack['fd'].shuffle_repeat_batch_federated_data(sub, batch_size=batch_size, client_buffer_size=cbuf, example_buffer_size=1, seed=3)
      return ids, [A.rows(b['x']) for b in itertools.islice(it, 2)], [c for c, _ in sub.clients()]
    finally:
      adapters.SET_ORDER[0] = 0
  a = run(o1)
  n = len(sizes)
  if sorted(a[0][:n]) != list(range(n)) or sorted(a[0][n:]) != list(range(n)) or a[2] != list(range(n)):
    return False
  return run(o2) == a


# ---- contracts --------------------------------------------------------------------------------------------
def pbcd(sizes: List[int], batch_size: int, buckets: int, gen: bool) -> bool:
  """
  pre: len(sizes) <= 3
  pre: all(0 <= s <= 3 for s in sizes)
  pre: 1 <= batch_size <= 3
  pre: 1 <= buckets <= 2
  post: __return__
  """
  return check_pbcd(S, M, sizes, batch_size, buckets, gen, False)


def pbcd_fd(sizes: List[int], batch_size: int, buckets: int) -> bool:
  """
  pre: 1 <= len(sizes) <= 3
  pre: all(0 <= s <= 2 for s in sizes)
  pre: 1 <= batch_size <= 3
  pre: 1 <= buckets <= 2
  post: __return__
  """
  return check_pbcd(S, M, sizes, batch_size, buckets, False, True)


def pbcd_reach(sizes: List[int], batch_size: int, buckets: int, gen: bool) -> bool:
  """
  pre: len(sizes) <= 3
  pre: all(0 <= s <= 3 for s in sizes)
  pre: 1 <= batch_size <= 3
  pre: 1 <= buckets <= 2
  post: not __return__
  """
  return check_pbcd(S, M, sizes, batch_size, buckets, gen, False)


def mismatch(kind: int, which: int, api: int, msize: int, osize: int) -> bool:
  """
  pre: 0 <= kind <= 1
  pre: 0 <= which <= 2
  pre: 0 <= api <= 1
  pre: 0 <= msize <= 2
  pre: 0 <= osize <= 2
  post: __return__
  """
  return check_mismatch(S, M, kind, which, api, concrete(msize, 0, 2), concrete(osize, 0, 2))


FACT = [1, 1, 2, 6, 24, 120]


def mk_tape(k, perm_id, swaps):
  perm = list(itertools.permutations(range(k)))[perm_id % FACT[k]] if k else ()
  return list(perm) + list(swaps)


def bshuffle(n: int, buffer_size: int, gen: bool, perm_id: int, swaps: List[int]) -> bool:
  """
  pre: 0 <= n <= 5
  pre: 1 <= buffer_size <= 4
  pre: 0 <= perm_id < 24
  pre: len(swaps) == max(0, n - buffer_size)
  pre: all(0 <= t < buffer_size for t in swaps)
  post: __return__
  """
  return check_bshuffle(S, M, n, buffer_size, gen, mk_tape(min(n, buffer_size), perm_id, swaps))


def bshuffle_nontrivial(buffer_size: int, perm_id: int, swaps: List[int]) -> bool:
  """
  The buffered shuffle can produce a non-identity order (this contract claims it cannot and must be refuted).
  pre: 2 <= buffer_size <= 3
  pre: 0 <= perm_id < 6
  pre: len(swaps) == 4 - buffer_size
  pre: all(0 <= t < buffer_size for t in swaps)
  post: __return__
  """
  np_lite.set_tape(mk_tape(buffer_size, perm_id, swaps))
  out = list(S['cd'].buffered_shuffle(list(range(4)), buffer_size, np_lite.random.RandomState(5)))
  return out == list(range(4))


def bsbcd(sizes: List[int], batch_size: int, buffer_size: int, perm_id: int, swaps: List[int]) -> bool:
  """
  pre: len(sizes) <= 3
  pre: all(0 <= s <= 2 for s in sizes)
  pre: sum(sizes) <= 4
  pre: 1 <= batch_size <= 2
  pre: 1 <= buffer_size <= 3
  pre: 0 <= perm_id < 6
  pre: len(swaps) == max(0, sum(sizes) - buffer_size)
  pre: all(0 <= t < buffer_size for t in swaps)
  post: __return__
  """
  return check_bsbcd(S, M, sizes, batch_size, buffer_size, mk_tape(min(sum(sizes), buffer_size), perm_id, swaps))


def repeatable(kind: int, n: int, drive: int) -> bool:
  """
  pre: 0 <= kind <= 3
  pre: 0 <= n <= 3
  pre: 0 <= drive <= 1
  post: __return__
  """
  return check_repeat(S, kind, n, drive)


def srbfd_subset(n: int, cbuf: int, o2: int) -> bool:
  """
  n single-row clients behind a subset wrapper; first run with set order 0, second with set order o2.
  pre: 1 <= n <= 3
  pre: 1 <= cbuf <= 3
  pre: 1 <= o2 <= 5
  post: __return__
  """
  return check_srbfd_subset(S, M, [1] * concrete(n, 1, 3), 1, concrete(cbuf, 1, 3), 0, concrete(o2, 1, 5))


def srbfd(sizes: List[int], batch_size: int, cbuf: int, ebuf: int, seed0: bool) -> bool:
  """
  pre: 1 <= len(sizes) <= 3
  pre: all(1 <= s <= 2 for s in sizes)
  pre: 1 <= batch_size <= 2
  pre: 1 <= cbuf <= 3
  pre: 1 <= ebuf <= 2
  post: __return__
  """
  return check_srbfd(S, M, sizes, batch_size, cbuf, ebuf, seed0, None)
