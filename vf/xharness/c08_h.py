"""CrossHair harness for C08: all FederatedData implementations expose the same mapping."""
import itertools
from typing import List, Optional

import adapters
import np_lite
import sql_model
import xload

S = adapters.load_model_stack()
M = adapters.ModelNP
SQM = xload.load_real('fedjax/core/sqlite_federated_data.py', 'sq_sym', {'numpy': np_lite},
                      attr_overrides={('fedjax.core', 'client_datasets'): S['cd'], ('fedjax.core', 'federated_data'): S['fd']})

import os as _os
IDS = [10, 20, 30] if _os.environ.get('C08_NIDS', '3') == '3' else [10, 20]   # order-type representatives: ids are only compared, hashed, sorted
SIZES = {10: 2, 20: 1, 30: 3}


def raw_rows(i):
  return [i * 10 + j for j in range(SIZES[i])]


def cfn(k):
  return lambda cid, ex: {**ex, 'x': ex['x'] * 2 + k}


def bfn(k):
  return lambda ex: {**ex, 'x': ex['x'] * 3 + k}


def build(stack, sqm, A, idmap, impl, sub_bits, real_sqlite=None):
  """impl 0: in-memory, 1: sqlite, 2: subset(in-memory), 3: subset(sqlite)."""
  data = {idmap(i): {'x': A.arr(raw_rows(i), 'int32')} for i in IDS}
  if impl in (0, 2):
    base = stack['im'].InMemoryFederatedData(data)
  else:
    base = real_sqlite(data) if real_sqlite else sqm.SQLiteFederatedData(
        sql_model.Connection([{'client_id': idmap(i), 'data': data[idmap(i)], 'num_examples': SIZES[i]} for i in IDS]), lambda d: d)
  if impl >= 2:
    base = stack['fd'].SubsetFederatedData(base, [idmap(i) for i, b in zip(IDS, sub_bits) if b])
  return base


def expected_view(sub_bits, impl, ops):
  ids = [i for i, b in zip(IDS, sub_bits) if b] if impl >= 2 else list(IDS)
  cks, bks = [], []
  for kind, s, e, k in ops:
    if kind == 0:
      ids = [i for i in ids if (s is None or s <= i) and (e is None or i < e)]
    elif kind == 1:
      cks.append(k)
    elif kind == 2:
      bks.append(k)
  def rows(i):
    r = raw_rows(i)
    for k in cks:
      r = [v * 2 + k for v in r]
    for k in bks:
      r = [v * 3 + k for v in r]
    return r
  return ids, rows


def apply_ops(view, ops, bound):
  for kind, s, e, k in ops:
    if kind == 0:
      view = view.slice(bound(s), bound(e))
    elif kind == 1:
      view = view.preprocess_client(cfn(k))
    elif kind == 2:
      view = view.preprocess_batch(bfn(k))
  return view


def check_view(A, view, ids, rows, idmap, probe, with_shuffle, light=False):
  exp_ids = [idmap(i) for i in ids]
  got = list(view.client_ids())
  if sorted(got) != sorted(exp_ids) or len(set(got)) != len(got) or list(view.client_ids()) != got:
    return 'client_ids %r, expected %r' % (got, exp_ids)
  if view.num_clients() != len(ids):
    return 'num_clients %r, expected %d' % (view.num_clients(), len(ids))
  if dict(view.client_sizes()) != {idmap(i): SIZES[i] for i in ids} or len(list(view.client_sizes())) != len(ids):
    return 'client_sizes %r' % (list(view.client_sizes()),)
  cl = [(c, A.rows(d.all_examples()['x'])) for c, d in view.clients()]
  if sorted(cl) != sorted((idmap(i), rows(i)) for i in ids):
    return 'clients() content %r' % (cl,)
  adapters.SET_ORDER[0] = 1        # "deterministic" includes another process: hash sets iterate in another order there
  try:
    again = [(c, A.rows(d.all_examples()['x'])) for c, d in view.clients()]
    ids_again = list(view.client_ids())
  finally:
    adapters.SET_ORDER[0] = 0
  if again != cl or ids_again != got:
    return 'clients() / client_ids() iteration order not deterministic'
  # batch-level preprocessors run when batches are produced
  for c, d in (view.clients() if not light else ()):
    flat = [v for b in d.batch(batch_size=2) for v in A.rows(b['x'])]
    if flat != dict(cl)[c]:
      return 'batches of %r give %r' % (c, flat)
  # bulk get in request order
  req = [idmap(i) for i in reversed(ids)]
  gc = [(c, A.rows(d.all_examples()['x'])) for c, d in view.get_clients(req)]
  if gc != [(idmap(i), rows(i)) for i in reversed(ids)]:
    return 'get_clients(%r) gave %r' % (req, gc)
  # point lookups, inside and outside the view
  p = idmap(probe)
  inside = probe in ids
  try:
    ds = view.get_client(p)
    if not inside or A.rows(ds.all_examples()['x']) != rows(probe):
      return 'get_client(%r) returned data for an id %s' % (p, 'outside the view' if not inside else 'with wrong content')
  except KeyError:
    if inside:
      return 'get_client(%r) raised KeyError for an id inside the view' % (p,)
  try:
    sz = view.client_size(p)
    if not inside or sz != SIZES[probe]:
      return 'client_size(%r) = %r' % (p, sz)
  except KeyError:
    if inside:
      return 'client_size(%r) raised KeyError for an id inside the view' % (p,)
  if not inside:
    try:
      list(view.get_clients([p]))
      return 'get_clients([%r]) did not raise KeyError for an id outside the view' % (p,)
    except KeyError:
      pass
    if ids:      # bulk request mixing a valid id with one outside the view must raise as well
      try:
        list(view.get_clients([idmap(ids[0]), p]))
        return 'get_clients with an id outside the view was silently shortened'
      except KeyError:
        pass
  if with_shuffle and ids:
    if A is M:
      np_lite.set_tape(None)
    for bs in sorted({2, len(ids) + 1, len(ids) + 2}):      # buffers shorter than, equal to and longer than the view
      seen = [c for c, _ in itertools.islice(view.shuffled_clients(buffer_size=bs, seed=1), 2 * len(ids))]
      if sorted(seen[:len(ids)]) != sorted(exp_ids) or sorted(seen[len(ids):]) != sorted(exp_ids):
        return 'shuffled pass %r (buffer_size=%d) does not visit every client of the view exactly once' % (seen, bs)
  return None


def scenario(stack, sqm, A, idmap, bound, impl, sub_bits, ops, probe, real_sqlite=None, light=False):
  base = build(stack, sqm, A, idmap, impl, sub_bits, real_sqlite)
  base_ids, base_rows = expected_view(sub_bits, impl, [])
  try:
    view = apply_ops(base, ops, bound)
  except Exception as e:   # pylint: disable=broad-except
    return 'deriving the view raised %s: %s' % (type(e).__name__, str(e)[:80])
  ids, rows = expected_view(sub_bits, impl, ops)
  try:
    bad = check_view(A, view, ids, rows, idmap, probe, not light, light)
    if bad:
      return bad
    bad = check_view(A, base, base_ids, base_rows, idmap, probe, False, light)     # deriving a view never changes its base
    if bad:
      return 'base changed after deriving a view: ' + bad
  except Exception as e:   # pylint: disable=broad-except
    return 'accessing the view raised %s: %s' % (type(e).__name__, str(e)[:80])
  return None


def mk_ops(k1, s1, e1, k2, s2, e2):
  ops = []
  for n, (k, s, e) in enumerate(((k1, s1, e1), (k2, s2, e2))):
    if k in (0, 1, 2):
      ops.append((k, s, e, n + 1))
  return ops


def _id(i):
  return i


import os
_CFG = [int(x) for x in os.environ.get('C08_CFG', '0,0,3,7,20').split(',')]    # impl, op kind 1, op kind 2 (3 = none), subset bits, probe
PATTERNS = {0: 'slice', 1: 'preprocess_client', 2: 'preprocess_batch', 3: '-'}


def views1(b0: bool, b1: bool, b2: bool, s: Optional[int], e: Optional[int], probe: int) -> bool:
  """
  At most one slice among the two operations (the other is a preprocessor or absent): subset, bounds and probe symbolic.
  Bounds are >= 0: bytes have a least element b'' (the only falsy bytes value), represented by 0 (the only falsy int).
  pre: (s is None or s >= 0) and (e is None or e >= 0)
  post: __return__
  """
  impl, k1, k2 = _CFG[:3]
  return scenario(S, SQM, M, _id, _id, impl, [b0, b1, b2], mk_ops(k1, s, e, k2, s, e), probe) is None


def views2(s1: Optional[int], e1: Optional[int], s2: Optional[int], e2: Optional[int]) -> bool:
  """
  Two nested slices: all four bounds symbolic (subset and probe fixed by the configuration).  0 stands for b'' (see views1).
  pre: (s1 is None or s1 >= 0) and (e1 is None or e1 >= 0) and (s2 is None or s2 >= 0) and (e2 is None or e2 >= 0)
  post: __return__
  """
  impl, _, _, bits, probe = _CFG
  return scenario(S, SQM, M, _id, _id, impl, [bool(bits & 1), bool(bits & 2), bool(bits & 4)][:len(IDS)], mk_ops(0, s1, e1, 0, s2, e2), probe, light=True) is None


def views_reach(b0: bool, b1: bool, b2: bool, s: Optional[int], e: Optional[int], probe: int) -> bool:
  """
  pre: (s is None or s >= 0) and (e is None or e >= 0)
  post: not __return__
  """
  impl, k1, k2 = _CFG[:3]
  return scenario(S, SQM, M, _id, _id, impl, [b0, b1, b2], mk_ops(k1, s, e, k2, s, e), probe) is None
