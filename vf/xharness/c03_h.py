"""CrossHair harness for C03: sequential batching is an exact, order-preserving partition."""
from typing import List

import adapters
import np_lite

import os
cd = adapters.load_model_cd()
M = adapters.ModelNP
MAXN, MAXB, MAXK = [int(x) for x in os.environ.get('C03_BOUNDS', '6,4,3').split(',')]
SL_FIXED = int(os.environ.get('C03_SL', '-1'))     # one CrossHair process per way of obtaining the dataset


INF = float('inf')


def concrete(x, lo, hi):
  """Branch on a small symbolic int so that the rest of the path runs on a concrete Python int."""
  for v in range(lo, hi + 1):
    if x == v:
      return v
  raise ValueError(x)


def make_dataset(cdm, A, vals, pp, sl=0):
  """sl 0: the dataset as constructed; 1 / 2: the same rows obtained by slicing a longer parent dataset (prefix / inner slice).
  Feature 'f' holds a non-finite float in every row (a missing-value encoding): padding must still be exact zeros."""
  pad_lo, pad_hi = ([], [77, 78]) if sl == 1 else (([66], [77]) if sl == 2 else ([], []))
  allv = pad_lo + list(vals) + pad_hi
  feats = {'a': A.arr(allv, 'int32'), 'img': A.arr([(v, v + 1) for v in allv], 'uint8', (2,)), 'f': A.arr([INF for _ in allv], 'float32')}
  fns = []
  if pp >= 2:
    def inplace(x):                                             # a preprocessor that modifies the mapping it is given
      x['a'] = x['a'] + 1
      return x
    fns.append(inplace)
  if pp >= 1:
    fns.append(lambda x: {**x, 'y': x['a'] * 2 + 1})          # derived feature, does not map 0 to 0
  pre = cdm.BatchPreprocessor(fns) if fns else cdm.NoOpBatchPreprocessor
  ds = cdm.ClientDataset(feats, pre)
  if sl:
    ds = ds[len(pad_lo):len(pad_lo) + len(vals)]
  return ds, ds.raw_examples


def expected_features(vals, pp):
  exp = {'a': [v + 1 if pp >= 2 else v for v in vals], 'img': [(v, v + 1) for v in vals], 'f': [INF for _ in vals]}
  if pp >= 1:
    exp['y'] = [a * 2 + 1 for a in exp['a']]
  return exp


def bucket_rule(rem, b, k):
  if rem == 0:
    return b
  c, cands = b, []
  for _ in range(k):
    cands.append(c)
    c //= 2
  ok = [c for c in cands if c >= rem]
  return min(ok)


def check_padded(cdm, A, vals, batch_size, buckets, pp, sl=0):
  n = len(vals)
  ds, feats = make_dataset(cdm, A, vals, pp, sl)
  if len(ds) != n:
    return False
  raw_before = {k: (A.rows(v), A.dtype(v), A.trailing(v)) for k, v in feats.items()}
  view = ds.padded_batch(batch_size=batch_size, num_batch_size_buckets=buckets)
  exp = expected_features(vals, pp)
  passes = []
  for _ in range(2):
    batches = list(view)
    got = {k: [] for k in exp}
    for i, b in enumerate(batches):
      mask = A.rows(b[cdm.EXAMPLE_MASK_KEY])
      size = len(mask)
      if sorted(b.keys()) != sorted(list(exp.keys()) + [cdm.EXAMPLE_MASK_KEY]):
        return False
      if i < len(batches) - 1 and size != batch_size:
        return False
      k = sum(1 for m in mask if m)
      if mask != [True] * k + [False] * (size - k):      # mask is a True-prefix
        return False
      if k == 0:
        return False
      for f in exp:
        rows = A.rows(b[f])
        if len(rows) != size:
          return False
        zero = (0, 0) if f == 'img' else 0
        if any(r != zero for r in rows[k:]):               # padded rows are all zero
          return False
        if A.trailing(b[f]) != ((2,) if f == 'img' else ()):
          return False
        got[f].extend(rows[:k])
      if A.dtype(b['a']) != 'int32' or A.dtype(b['img']) != 'uint8' or A.dtype(b['f']) != 'float32' or A.dtype(b[cdm.EXAMPLE_MASK_KEY]) != 'bool':
        return False
    if got != exp:                                          # every example once, in order
      return False
    if batches:
      last = len(A.rows(batches[-1][cdm.EXAMPLE_MASK_KEY]))
      rem = n - (len(batches) - 1) * batch_size
      if rem <= 0 or rem > batch_size:
        return False
      if last != bucket_rule(rem % batch_size, batch_size, buckets):
        return False
    elif n != 0:
      return False
    passes.append([{f: A.rows(b[f]) for f in sorted(b)} for b in batches])
  if passes[0] != passes[1]:                                # iterating again gives identical batches
    return False
  raw_after = {k: (A.rows(v), A.dtype(v), A.trailing(v)) for k, v in ds.raw_examples.items()}
  return raw_after == raw_before                            # the dataset is never mutated


def check_plain(cdm, A, vals, batch_size, drop, pp, sl=0):
  n = len(vals)
  ds, feats = make_dataset(cdm, A, vals, pp, sl)
  if len(ds) != n:
    return False
  raw_before = {k: (A.rows(v), A.dtype(v), A.trailing(v)) for k, v in feats.items()}
  view = ds.batch(batch_size=batch_size, drop_remainder=drop)
  exp = expected_features(vals, pp)
  keep = (n // batch_size) * batch_size if drop else n
  exp = {k: v[:keep] for k, v in exp.items()}
  passes = []
  for _ in range(2):
    batches = list(view)
    got = {k: [] for k in exp}
    for i, b in enumerate(batches):
      if sorted(b.keys()) != sorted(exp.keys()):
        return False
      size = len(A.rows(b['a']))
      if size == 0 or size > batch_size:
        return False
      if (i < len(batches) - 1 or drop) and size != batch_size:
        return False
      for f in exp:
        rows = A.rows(b[f])
        if len(rows) != size:
          return False
        got[f].extend(rows)
    if got != exp:
      return False
    passes.append([{f: A.rows(b[f]) for f in sorted(b)} for b in batches])
  if passes[0] != passes[1]:
    return False
  raw_after = {k: (A.rows(v), A.dtype(v), A.trailing(v)) for k, v in ds.raw_examples.items()}
  return raw_after == raw_before


def check_final_size(cdm, n, batch_size, buckets):
  return cdm._pick_final_batch_size(n, batch_size, buckets) == bucket_rule(n % batch_size, batch_size, buckets)


# ---- contracts ------------------------------------------------------------------------------------------
def padded(vals: List[int], batch_size: int, buckets: int, pp: int, sl: int) -> bool:
  """
  pre: len(vals) <= MAXN
  pre: 1 <= batch_size <= MAXB
  pre: 1 <= buckets <= MAXK
  pre: 0 <= pp <= 2
  pre: 0 <= sl <= 2 and (SL_FIXED < 0 or sl == SL_FIXED)
  post: __return__
  """
  return check_padded(cd, M, vals, batch_size, buckets, pp, concrete(sl, 0, 2))


def padded_reach(vals: List[int], batch_size: int, buckets: int, pp: int) -> bool:
  """
  pre: len(vals) <= MAXN
  pre: 1 <= batch_size <= MAXB
  pre: 1 <= buckets <= MAXK
  pre: 0 <= pp <= 2
  post: not __return__
  """
  return check_padded(cd, M, vals, batch_size, buckets, pp)


def plain(vals: List[int], batch_size: int, drop: bool, pp: int, sl: int) -> bool:
  """
  pre: len(vals) <= MAXN
  pre: 1 <= batch_size <= MAXB
  pre: 0 <= pp <= 2
  pre: 0 <= sl <= 2 and (SL_FIXED < 0 or sl == SL_FIXED)
  post: __return__
  """
  return check_plain(cd, M, vals, batch_size, drop, pp, concrete(sl, 0, 2))


def final_size(n: int, batch_size: int, buckets: int) -> bool:
  """
  pre: 0 <= n <= 40
  pre: 1 <= batch_size <= 12
  pre: 1 <= buckets <= 4
  post: __return__
  """
  return check_final_size(cd, n, batch_size, buckets)
