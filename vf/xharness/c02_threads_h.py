"""CrossHair harness: backend selection is scoped to the current thread and restored when a context exits."""
import sys
import types
from typing import List

import fedjax.core.dataclasses   # real dependencies first  # noqa
import thread_model
import xload

_tm = types.ModuleType('threading')
_tm.local = thread_model.local
fec = xload.load_real('fedjax/core/for_each_client.py', 'fec_sym', {'threading': _tm})

ARGS = ['debug', 'jit', 'pmap', None, 'bogus']
INNER = [None, 'debug', 'bogus']      # no nesting / nested valid / nested invalid
NAMES = {'debug': 'ForEachClientDebugBackend', 'jit': 'ForEachClientJitBackend', 'pmap': 'ForEachClientPmapBackend',
         None: 'ForEachClientJitBackend'}


class Boom(Exception):
  pass


def describe():
  return type(fec.get_for_each_client_backend()).__name__


def body_a(arg, inner, raise_inside, obs, pre=0):
  # pre 0: the thread looks its backend up first; 1: the context is the thread's FIRST backend operation;
  # 2: it follows set_for_each_client_backend(None)
  if pre == 0:
    obs.append(('a-before', describe()))
  elif pre == 2:
    fec.set_for_each_client_backend(None)
  yield
  try:
    with fec.for_each_client_backend(arg):
      yield
      obs.append(('a-inside', describe()))
      yield
      if inner is not None:
        try:
          with fec.for_each_client_backend(inner):
            yield
            obs.append(('a-nested', describe()))
        except ValueError:
          obs.append(('a-nested-valueerror', ''))
        yield
        obs.append(('a-after-nested', describe()))
      if raise_inside:
        raise Boom()
      yield
  except Boom:
    pass
  except ValueError:
    obs.append(('a-valueerror', ''))
  yield
  obs.append(('a-after', describe()))


def body_b(arg, use_set, obs):
  obs.append(('b-before', describe()))
  yield
  if use_set:
    fec.set_for_each_client_backend(arg)
    yield
    obs.append(('b-inside', describe()))
  else:
    with fec.for_each_client_backend(arg):
      yield
      obs.append(('b-inside', describe()))
      yield
    obs.append(('b-after', describe()))


def expected(a_arg, a_inner, b_arg, b_set):
  d = NAMES[None]
  exp = {'a-before': d, 'a-after': d, 'b-before': d, 'b-after': d}
  if a_arg != 'bogus':
    exp['a-inside'] = NAMES[a_arg]
    exp['a-after-nested'] = NAMES[a_arg]
    if a_inner is not None and a_inner != 'bogus':
      exp['a-nested'] = NAMES[a_inner]
  exp['b-inside'] = NAMES[b_arg]
  return exp


def run_schedule(schedule, a_choice, a_inner_choice, a_raises, b_choice, b_set, a_pre=0):
  thread_model.reset()
  fec._BACKEND_CHOICE = fec.BackendChoice()     # fresh per run (the module-level object is shared between runs)
  a_arg, b_arg = ARGS[a_choice], ARGS[b_choice]
  a_inner = INNER[a_inner_choice]
  obs = []
  gens = [body_a(a_arg, a_inner, a_raises, obs, a_pre), body_b(b_arg, b_set, obs)]
  alive = [True, True]
  for pick in list(schedule) + [False] * 12 + [True] * 12:
    t = 1 if pick else 0
    if not alive[t]:
      t = 1 - t
    if not alive[t]:
      break
    thread_model.CURRENT[0] = t
    try:
      next(gens[t])
    except StopIteration:
      alive[t] = False
  exp = expected(a_arg, a_inner, b_arg, b_set)
  for tag, val in obs:
    if tag in exp and exp[tag] != val:
      return False
  if a_arg == 'bogus' and ('a-valueerror', '') not in obs:
    return False
  if a_arg != 'bogus' and a_inner == 'bogus' and ('a-nested-valueerror', '') not in obs:
    return False
  tags = [t for t, _ in obs]
  return 'a-after' in tags and 'b-inside' in tags


import os
_CFG = ([int(x) for x in os.environ.get('C02_CFG', '0,0,2,0,0,0').split(',')] + [0])[:6]   # a_choice, a_inner_choice, b_choice, b_set, a_raises, a_pre


def threads_scoped(schedule: List[bool]) -> bool:
  """
  pre: len(schedule) <= 7
  post: __return__
  """
  a, inner, b, bset, raises, pre = _CFG
  return run_schedule(schedule, a, inner, bool(raises), b, bool(bset), pre)


def threads_reach(schedule: List[bool]) -> bool:
  """
  pre: len(schedule) <= 7
  post: not __return__
  """
  a, inner, b, bset, raises, pre = _CFG
  return run_schedule(schedule, a, inner, bool(raises), b, bool(bset), pre)
