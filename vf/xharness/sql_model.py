"""A tiny evaluator for exactly the statement shapes fedjax issues against its `federated_data` table (Engine X trusted base).

The WHERE expression is tokenised and interpreted as written, so a changed operator in fedjax's SQL text changes the model's
behaviour.  Validated against the real sqlite3 on literal ids by `validate()`."""
import re

_TOK = re.compile(r'\s*(<=|>=|!=|<>|<|>|=|\(|\)|:[A-Za-z_]+|\?|[A-Za-z_][A-Za-z_0-9]*|[0-9]+|\*|,|;)')


def tokenize(s):
  out, pos = [], 0
  s = s.strip()
  while pos < len(s):
    m = _TOK.match(s, pos)
    if not m:
      raise ValueError('cannot tokenize %r at %d' % (s, pos))
    out.append(m.group(1))
    pos = m.end()
  return out


class _Parser:
  """Parses a WHERE expression into a small AST (done once per distinct SQL text, see _PARSED)."""

  def __init__(self, toks):
    self.t, self.i = toks, 0
    self.qpos = 0

  def peek(self):
    return self.t[self.i] if self.i < len(self.t) else None

  def eat(self, tok=None):
    v = self.t[self.i]
    if tok is not None and v.upper() != tok:
      raise ValueError('expected %s got %s' % (tok, v))
    self.i += 1
    return v

  def expr(self):
    v = self.conj()
    while self.peek() is not None and self.peek().upper() == 'OR':
      self.eat()
      v = ('or', v, self.conj())
    return v

  def conj(self):
    v = self.term()
    while self.peek() is not None and self.peek().upper() == 'AND':
      self.eat()
      v = ('and', v, self.term())
    return v

  def operand(self):
    tok = self.eat()
    if tok == '(':
      v = self.expr()
      self.eat(')')
      return v
    if tok.startswith(':'):
      return ('param', tok[1:])
    if tok == '?':
      v = ('q', self.qpos)
      self.qpos += 1
      return v
    if tok.isdigit():
      return ('num', int(tok))
    return ('col', tok)

  def term(self):
    if self.peek() is not None and self.peek().upper() == 'NOT':
      self.eat()
      return ('not', self.term())
    a = self.operand()
    nxt = self.peek()
    if nxt is None:
      return a
    if nxt.upper() == 'BETWEEN':
      self.eat()
      lo = self.operand()
      self.eat('AND')
      hi = self.operand()
      return ('between', a, lo, hi)
    if nxt in ('<=', '>=', '<', '>', '=', '!=', '<>'):
      op = self.eat()
      return ('cmp', op, a, self.operand())
    return a


def _ev(n, row, params):
  k = n[0]
  if k == 'and':
    return _ev(n[1], row, params) and _ev(n[2], row, params)
  if k == 'or':
    return _ev(n[1], row, params) or _ev(n[2], row, params)
  if k == 'not':
    return not _ev(n[1], row, params)
  if k == 'param':
    return params[n[1]]
  if k == 'q':
    return params[n[1]]
  if k == 'num':
    return n[1]
  if k == 'col':
    return row[n[1]]
  if k == 'between':
    a, lo, hi = _ev(n[1], row, params), _ev(n[2], row, params), _ev(n[3], row, params)
    return lo <= a and a <= hi
  if k == 'cmp':
    a, b = _ev(n[2], row, params), _ev(n[3], row, params)
    op = n[1]
    if op == '<=':
      return a <= b
    if op == '>=':
      return a >= b
    if op == '<':
      return a < b
    if op == '>':
      return a > b
    if op == '=':
      return a == b
    return a != b
  raise ValueError(k)


_PARSED = {}


def parse_statement(sql):
  if sql not in _PARSED:
    m = re.match(r'\s*SELECT\s+(.*?)\s+FROM\s+federated_data(?:\s+WHERE\s+(.*?))?(\s+ORDER\s+BY\s+rowid)?\s*;?\s*$', sql, re.S | re.I)
    if not m:
      raise ValueError('unsupported statement %r' % sql)
    cols, where = m.group(1).strip(), m.group(2)
    ast = _Parser(tokenize(where)).expr() if where is not None else None
    count = cols.upper().replace(' ', '') == 'COUNT(*)'
    _PARSED[sql] = (count, [c.strip() for c in cols.split(',')], ast)
  return _PARSED[sql]


class Cursor:
  def __init__(self, rows):
    self.rows = list(rows)
    self.pos = 0

  def fetchone(self):
    if self.pos >= len(self.rows):
      return None
    r = self.rows[self.pos]
    self.pos += 1
    return r

  def fetchall(self):
    out = self.rows[self.pos:]
    self.pos = len(self.rows)
    return out

  def __iter__(self):
    return iter(self.fetchall())


class Connection:
  """rows: list of dicts {client_id, data, num_examples} in rowid (insertion) order."""

  def __init__(self, rows):
    self.table = [dict(r) for r in rows]

  def execute(self, sql, params=()):
    count, names, ast = parse_statement(sql)
    sel = [row for row in self.table if ast is None or _ev(ast, row, params)]
    if count:
      return Cursor([(len(sel),)])
    return Cursor([tuple(r[n] for n in names) for r in sel])

  def close(self):
    pass


def validate():
  import sqlite3
  probs = []
  ids = [b'a', b'a\x00', b'ab', b'b', b'\xff']
  con = sqlite3.connect(':memory:')
  con.execute('CREATE TABLE federated_data (client_id BLOB NOT NULL PRIMARY KEY, data BLOB NOT NULL, num_examples INTEGER NOT NULL);')
  rows = []
  for i, cid in enumerate(ids):
    con.execute('INSERT INTO federated_data VALUES (?, ?, ?);', (cid, b'd%d' % i, i))
    rows.append({'client_id': cid, 'data': b'd%d' % i, 'num_examples': i})
  model = Connection(rows)
  stmts = [('SELECT COUNT(*) FROM federated_data WHERE (1);', {'start': None, 'stop': None}),
           ('SELECT client_id FROM federated_data WHERE (:start <= client_id AND client_id < :stop) ORDER BY rowid;', {'start': b'a\x00', 'stop': b'b'}),
           ('SELECT client_id, num_examples FROM federated_data WHERE (client_id < :stop) ORDER BY rowid;', {'start': None, 'stop': b'ab'}),
           ('SELECT client_id, data FROM federated_data WHERE (:start <= client_id) ORDER BY rowid;', {'start': b'ab', 'stop': None}),
           ('SELECT client_id FROM federated_data WHERE (client_id BETWEEN :start AND :stop) ORDER BY rowid;', {'start': b'a', 'stop': b'ab'}),
           ('SELECT num_examples FROM federated_data WHERE client_id = ?', [b'a\x00']),
           ('SELECT data FROM federated_data WHERE client_id = ?', [b'zz'])]
  for sql, params in stmts:
    real = con.execute(sql, params).fetchall()
    mine = model.execute(sql, params).fetchall()
    if [tuple(r) for r in real] != [tuple(r) for r in mine]:
      probs.append('sql model differs on %r: %r vs sqlite3 %r' % (sql, mine, real))
  return probs
