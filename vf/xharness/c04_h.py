"""CrossHair harness for C04: shuffled batching samples without replacement, exact count, seeded."""
import itertools
from typing import List

import adapters
import np_lite

cd = adapters.load_model_cd()
M = adapters.ModelNP
import os
MAX_INF = 3      # infinite streams are cut after this many batches
MAXN, MAXB, MAXE, MAXS = [int(x) for x in os.environ.get('C04_BOUNDS', '4,3,2,4').split(',')]


def expected_steps(n, b, epochs, steps, drop):
  """The documented number of batches (None = infinite)."""
  if epochs is not None:
    total = n * epochs
    k = total // b if drop else (total + b - 1) // b
    return k if steps is None else min(steps, k)
  return steps


def tape_len(n, b, epochs, steps, drop):
  k = expected_steps(n, b, epochs, steps, drop)
  k = MAX_INF if k is None else k
  draws = k * b
  return ((draws + n - 1) // n) * n if draws else 0


def check_srb(cdm, A, n, b, epochs_c, steps_c, drop, skip, tape):
  epochs = None if epochs_c == 0 else epochs_c
  steps = None if steps_c < 0 else steps_c
  model = A is M
  if model:
    np_lite.set_tape(tape)
  x = A.arr(list(range(n)), 'int32')
  if model:
    x.is_arange = True        # gathering from arange(n) by an index array returns the indices
  ds = cdm.ClientDataset({'x': x})
  view = ds.shuffle_repeat_batch(batch_size=b, num_epochs=epochs, num_steps=steps, drop_remainder=drop, seed=7, skip_shuffle=skip)
  k = expected_steps(n, b, epochs, steps, drop)
  cut = MAX_INF if k is None else k

  def one_pass(it):
    out = []
    for bt in itertools.islice(it, cut + (0 if k is None else 1)):
      out.append(A.rows(bt['x']))
    return out
  p1 = one_pass(iter(view))
  if len(p1) != cut:                                       # documented number of batches
    return False
  if any(len(r) != b for r in p1):                         # every batch has exactly batch_size rows
    return False
  stream = [v for r in p1 for v in r]
  if skip:
    if stream != [i % n for i in range(len(stream))]:      # cyclic original order
      return False
  elif model:
    if stream != list(tape[:len(stream)]):                  # window j = result of the j-th shuffle, consumed only when the previous is exhausted
      return False
    nsh = sum(1 for e in np_lite.Tape.log if e[0] == 'shuffle')
    if nsh != (len(stream) + n - 1) // n:                  # one shuffle per window, none wasted
      return False
  else:
    for w in range(0, len(stream) - n + 1, n):              # real numpy: every complete window is a permutation
      if sorted(stream[w:w + n]) != list(range(n)):
        return False
    tail = stream[(len(stream) // n) * n:]
    if len(set(tail)) != len(tail) or any(not 0 <= v < n for v in tail):
      return False
  # fixed seed: a second pass (after an iterator that was abandoned half-way), and two interleaved iterators, give identical batches
  if cut:
    next(iter(view))                                        # an abandoned iterator must leave nothing behind
  if model:
    np_lite.Tape.log = []
  p2 = one_pass(iter(view))
  if p2 != p1:
    return False
  it1, it2 = iter(view), iter(view)
  a, c = [], []
  for _ in range(cut):
    a.append(A.rows(next(it1)['x']))
    c.append(A.rows(next(it2)['x']))
  return a == p1 and c == p1


def reshuffle_probe_real(cdm, A, n, b, epochs_c, steps_c, drop, scale=4):
  """Real numpy only ("successive windows are re-shuffled"): the same configuration scaled by `scale` (N, batch_size, num_steps keep
  their alignment relations); over 3 seeds, some pair of successive complete windows must differ.  Returns None or a message."""
  epochs = None if epochs_c == 0 else epochs_c
  steps = None if steps_c < 0 else steps_c
  N, B = n * scale, b * scale
  k = expected_steps(N, B, epochs, steps, drop)
  cut = MAX_INF if k is None else k
  same_everywhere, pairs = True, 0
  for seed in (1, 2, 3):
    ds = cdm.ClientDataset({'x': A.arr(list(range(N)), 'int32')})
    view = ds.shuffle_repeat_batch(batch_size=B, num_epochs=epochs, num_steps=steps, drop_remainder=drop, seed=seed)
    stream = [v for bt in itertools.islice(iter(view), cut) for v in A.rows(bt['x'])]
    wins = [stream[w:w + N] for w in range(0, len(stream) - N + 1, N)]
    for w1, w2 in zip(wins, wins[1:]):
      pairs += 1
      if w1 != w2:
        same_everywhere = False
  if pairs and same_everywhere:
    return 'N=%d batch_size=%d: all %d pairs of successive windows are identical over 3 seeds (windows are not re-shuffled)' % (N, B, pairs)
  return None


def srb(n: int, batch_size: int, epochs_c: int, steps_c: int, drop: bool, skip: bool, tape: List[int]) -> bool:
  """
  pre: 1 <= n <= MAXN
  pre: 1 <= batch_size <= MAXB
  pre: 0 <= epochs_c <= MAXE
  pre: -1 <= steps_c <= MAXS
  pre: len(tape) == tape_len(n, batch_size, None if epochs_c == 0 else epochs_c, None if steps_c < 0 else steps_c, drop)
  post: __return__
  """
  return check_srb(cd, M, n, batch_size, epochs_c, steps_c, drop, skip, tape)


def srb_big_batch(n: int, batch_size: int, steps_c: int, tape: List[int]) -> bool:
  """
  pre: 1 <= n <= 3
  pre: 4 <= batch_size <= 7
  pre: 0 <= steps_c <= 3
  pre: len(tape) == tape_len(n, batch_size, None, steps_c, False)
  post: __return__
  """
  return check_srb(cd, M, n, batch_size, 0, steps_c, False, False, tape)


def srb_reach(n: int, batch_size: int, epochs_c: int, steps_c: int, drop: bool, skip: bool, tape: List[int]) -> bool:
  """
  pre: 1 <= n <= MAXN
  pre: 1 <= batch_size <= MAXB
  pre: 0 <= epochs_c <= MAXE
  pre: -1 <= steps_c <= MAXS
  pre: len(tape) == tape_len(n, batch_size, None if epochs_c == 0 else epochs_c, None if steps_c < 0 else steps_c, drop)
  post: not __return__
  """
  return check_srb(cd, M, n, batch_size, epochs_c, steps_c, drop, skip, tape)
