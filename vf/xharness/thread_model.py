"""Model of `threading` for symbolic schedules: thread-local storage keyed by the harness's current-thread variable."""
CURRENT = [0]


class local:
  """Same contract as threading.local: attributes are per thread; __init__ runs once per thread on first access."""

  def __new__(cls, *a, **k):
    o = object.__new__(cls)
    object.__setattr__(o, '_stores', {})
    object.__setattr__(o, '_args', (a, k))
    return o

  def __init__(self, *a, **k):
    pass

  def _store(self):
    st = object.__getattribute__(self, '_stores')
    tid = CURRENT[0]
    if tid not in st:
      st[tid] = {}
      a, k = object.__getattribute__(self, '_args')
      type(self).__init__(self, *a, **k)
    return st[tid]

  def __getattribute__(self, name):
    if name == '_store' or (name.startswith('__') and name.endswith('__')):
      return object.__getattribute__(self, name)
    d = object.__getattribute__(self, '_store')()
    if name in d:
      return d[name]
    return object.__getattribute__(self, name)

  def __setattr__(self, name, value):
    object.__getattribute__(self, '_store')()[name] = value


def reset():
  CURRENT[0] = 0
