"""CrossHair harness for C13: client sampling is a pure function of (seed, round number)."""
import itertools
import types
from typing import List

import adapters
import np_lite
import xload

S = adapters.load_model_stack()
M = adapters.ModelNP
IDS = [10, 20, 30, 40]
ROUNDS = [0, 1, 2, 5]
FACT = [1, 1, 2, 6, 24]


# ---- models of the two libraries the sampler calls ---------------------------------------------------------
class _JaxRandom:
  @staticmethod
  def PRNGKey(n):
    return ('key', n)

  @staticmethod
  def split(key, num=2):
    return [('split', key, num, i) for i in range(num)]


_JAX = types.ModuleType('jax')
_JAX.random = _JaxRandom


class SeededDraws:
  """RandomState(s): every draw is a function of the seed s.  The permutation used by choice() for a seed is taken from
  the symbolic tape the first time the seed is seen and remembered (numpy's generator is deterministic per seed)."""
  perm_ids = []
  by_seed = {}
  nseen = 0

  @classmethod
  def reset(cls, perm_ids):
    cls.perm_ids = list(perm_ids)
    cls.by_seed = {}
    cls.nseen = 0


class _RS:
  def __init__(self, seed=None):
    self.s = seed

  def randint(self, lo, hi=None):
    return 1 + (self.s * 7919 + 13) % 1000          # some function of the seed within [1, hi)

  def choice(self, a, size=None, replace=True):
    rows = list(a.rows) if isinstance(a, np_lite.ndarray) else list(a)
    n = len(rows)
    if self.s not in SeededDraws.by_seed:
      pid = SeededDraws.perm_ids[SeededDraws.nseen] if SeededDraws.nseen < len(SeededDraws.perm_ids) else 0
      SeededDraws.nseen += 1
      SeededDraws.by_seed[self.s] = pid
    perm = list(itertools.permutations(range(n)))[SeededDraws.by_seed[self.s] % FACT[n]]
    assert not replace
    return np_lite.ndarray([rows[p] for p in perm[:size]], 'object')


class _NPRandom:
  RandomState = _RS


_NP = types.ModuleType('numpy')
for _k in dir(np_lite):
  if not _k.startswith('__'):
    setattr(_NP, _k, getattr(np_lite, _k))
_NP.random = _NPRandom
_NP.object_ = 'object'

CS = xload.load_real('fedjax/core/client_samplers.py', 'cs_sym', {'numpy': _NP, 'jax': _JAX},
                     attr_overrides={('fedjax.core', 'client_datasets'): S['cd'], ('fedjax.core', 'federated_data'): S['fd']})


CS.set = adapters.OrderFreeSet          # any hash set the sampler builds iterates in a per-process order (see adapters.OrderFreeSet)
CS.frozenset = adapters.OrderFreeSet


def make_fd(stack, A, n, idmap=lambda i: i):
  return stack['im'].InMemoryFederatedData({idmap(i): {'x': A.arr([i, i + 1], 'int32')} for i in IDS[:n]})


def expected_perm(seed, r, n):
  """model side: which permutation the oracle assigned to the derived seed of (seed, r)."""
  st = CS.get_pseudo_random_state(seed, r)
  return list(itertools.permutations(range(n)))[SeededDraws.by_seed[st.s] % FACT[n]]


def check_round(res, fd_ids, cohort, r, key_of, expect_ids):
  ids = [c[0] for c in res]
  if len(res) != cohort or len(set(ids)) != len(ids):
    return 'round %d: %d clients %r for cohort %d (repeats or wrong size)' % (r, len(res), ids, cohort)
  if any(i not in fd_ids for i in ids):
    return 'round %d: ids %r not all in the dataset' % (r, ids)
  if expect_ids is not None and ids != expect_ids:
    return 'round %d: ids %r, expected %r from the draw of (seed, round) over the dataset ids in dataset order' % (r, ids, expect_ids)
  keys = [key_of(c[2]) for c in res]
  if len(set(keys)) != len(keys):
    return 'round %d: client keys not pairwise distinct' % r
  return None


def scenario_get(cs, stack, A, n, cohort, seed, order, perm_ids, key_of, expected_ids_fn, reset, idmap=lambda i: i, seat_twice=False):
  """UniformGetClientSampler: the result at round r does not depend on which rounds were sampled before (nor on how often
  the sampler was seated at r before sampling), and every id comes with ITS OWN dataset."""
  reset(perm_ids)
  hidden0 = module_state(cs)
  bad = _scenario_get(cs, stack, A, n, cohort, seed, order, key_of, expected_ids_fn, idmap, seat_twice)
  if bad is None and module_state(cs) != hidden0:
    msg = 'the sampler keeps state outside itself: module-level containers of client_samplers changed from %r to %r' % (hidden0, module_state(cs))
    if A is M:
      return msg           # model side: a candidate; the replay below must demonstrate a wrong result on the real code
    demo = address_reuse_probe(cs, stack, A)
    return (msg + '; ' + demo) if demo else None
  return bad


def address_reuse_probe(cs, stack, A):
  """Real code only: datasets created and dropped in a loop (folds, trials); a sampler over a NEW dataset must draw that
  dataset's ids even when the new object happens to live at the address of a dropped one."""
  import gc
  for t in range(30):
    fa = stack['im'].InMemoryFederatedData({b'A%d' % j: {'x': A.arr([j], 'int32')} for j in range(3)})
    cs.UniformGetClientSampler(fa, 2, 0).sample()
    del fa
    gc.collect()
    fb = stack['im'].InMemoryFederatedData({b'B%d' % j: {'x': A.arr([j], 'int32')} for j in range(3)})
    try:
      ids = [c[0] for c in cs.UniformGetClientSampler(fb, 2, 0).sample()]
    except KeyError as e:
      return 'fold %d: sampling from a fresh dataset raises KeyError(%s) (ids of a dropped dataset are used)' % (t, e)
    if any(not i.startswith(b'B') for i in ids):
      return 'fold %d: a sampler over a fresh dataset returned ids %r of a dropped dataset' % (t, ids)
    del fb
  return None


def module_state(cs):
  """Sizes of the module-level mutable containers of the sampler module (a result that is a function of (seed, round) and of
  the dataset cannot depend on a module-level cache)."""
  return sorted((k, type(v).__name__, len(v)) for k, v in vars(cs).items()
                if isinstance(v, (dict, list, set)) and not k.startswith('__'))


def _scenario_get(cs, stack, A, n, cohort, seed, order, key_of, expected_ids_fn, idmap, seat_twice):
  fd = make_fd(stack, A, n, idmap)
  fd_ids = list(fd.client_ids())
  own_rows = {idmap(i): [i, i + 1] for i in IDS[:n]}
  sampler = cs.UniformGetClientSampler(fd, cohort, seed)
  seen = {}
  keys_by_round = {}
  prev = None
  for r in order:
    if prev is None or r != prev + 1:
      sampler.set_round_num(r)            # jump (forward, backward or repeat); consecutive rounds just continue
      if seat_twice:
        sampler.set_round_num(r)          # e.g. user code seats a restored sampler and run_federated_experiment seats it again
    res = sampler.sample()
    bad = check_round(res, fd_ids, cohort, r, key_of, expected_ids_fn(fd_ids, seed, r, n, cohort))
    if bad:
      return bad
    summary = [(c[0], A.rows(c[1].all_examples()['x']), key_of(c[2])) for c in res]
    for cid, rows, _ in summary:
      if rows != own_rows[cid]:
        return 'round %d: client %r is returned with the dataset %r of another client' % (r, cid, rows)
    if r in seen and seen[r] != summary:
      return 'round %d sampled twice with different results (history %r)' % (r, order)
    seen[r] = summary
    keys_by_round[r] = [s[2] for s in summary]
    prev = r
  # a restarted sampler seated at round r reproduces the original run
  adapters.SET_ORDER[0] = 1       # the restart may be another process: hash sets iterate in another order there
  try:
    for r in seen:
      fresh = cs.UniformGetClientSampler(make_fd(stack, A, n, idmap), cohort, seed, start_round_num=r)
      res = fresh.sample()
      if [(c[0], A.rows(c[1].all_examples()['x']), key_of(c[2])) for c in res] != seen[r]:
        return 'a sampler restarted at round %d differs from the original run' % r
  finally:
    adapters.SET_ORDER[0] = 0
  rs = sorted(keys_by_round)
  for a, b in zip(rs, rs[1:]):
    if set(keys_by_round[a]) & set(keys_by_round[b]):
      return 'client keys reused between rounds %d and %d' % (a, b)
  return None


def scenario_stream(cs, stack, A, n, cohort, start, seed0, idmap=lambda i: i, tape=None):
  """UniformShuffledClientSampler(start_round_num=r) over a seeded stream == rounds r, r+1, ... of one started at 0."""
  if A is M:
    np_lite.set_tape(tape)      # None: tape-free deterministic shuffles; a list: the seeded generator's draws (same tape for every generator of that seed)
  seed = 0 if seed0 else 3
  fd = make_fd(stack, A, n, idmap)

  def run(start_round, rounds):
    s = cs.UniformShuffledClientSampler(fd.shuffled_clients(buffer_size=2, seed=seed), cohort, start_round)
    return [[(c[0], c[2] if A is M else tuple(int(v) for v in __import__('numpy').asarray(c[2]).reshape(-1))) for c in s.sample()] for _ in range(rounds)]
  full = run(0, start + 2)
  rest = run(start, 2)
  if rest != full[start:]:
    return 'streaming sampler restarted at round %d gives %r, the original run gave %r' % (start, rest, full[start:])
  for rnd in full:
    if len(rnd) != cohort:
      return 'cohort size'
  return None


def _model_expected(fd_ids, seed, r, n, cohort):
  perm = expected_perm(seed, r, n)
  return [fd_ids[p] for p in perm[:cohort]]


import os
_NCFG = [int(x) for x in os.environ.get('C13_CFG', '3,2,0').split(',')]   # clients, cohort, seed


def get_sampler(i1: int, i2: int, p1: int, p2: int, seat_twice: bool) -> bool:
  """
  Two requested rounds in any order (repeat, forward jump, backward jump), the draws of both rounds symbolic; jumps seat the
  sampler once or twice.
  pre: 0 <= i1 <= 3 and 0 <= i2 <= 3
  pre: 0 <= p1 < 24 and 0 <= p2 < 24
  post: __return__
  """
  n, cohort, seed = _NCFG
  return scenario_get(CS, S, M, n, cohort, seed, [ROUNDS[i1], ROUNDS[i2]], [p1 % FACT[n], p2 % FACT[n]], lambda k: k, _model_expected, SeededDraws.reset,
                      seat_twice=seat_twice) is None


def get_sampler3(i1: int, i2: int, i3: int) -> bool:
  """
  Three requested rounds in any order; draws fixed.
  pre: 0 <= i1 <= 3 and 0 <= i2 <= 3 and 0 <= i3 <= 3
  post: __return__
  """
  n, cohort, seed = _NCFG
  return scenario_get(CS, S, M, n, cohort, seed, [ROUNDS[i1], ROUNDS[i2], ROUNDS[i3]], [1, 4, 2, 3], lambda k: k, _model_expected, SeededDraws.reset) is None


def get_sampler_reach(i1: int, i2: int, p1: int, p2: int) -> bool:
  """
  pre: 0 <= i1 <= 3 and 0 <= i2 <= 3
  pre: 0 <= p1 < 24 and 0 <= p2 < 24
  post: not __return__
  """
  n, cohort, seed = _NCFG
  return scenario_get(CS, S, M, n, cohort, seed, [ROUNDS[i1], ROUNDS[i2]], [p1 % FACT[n], p2 % FACT[n]], lambda k: k, _model_expected, SeededDraws.reset) is None


def stream_sampler_tape(flips: List[bool], start: int) -> bool:
  """
  3 clients, cohort 2, shuffle buffer 2: the initial shuffle of every pass is symbolic (flips[k] = pass k starts reversed), so a
  round's window may straddle two passes and contain the same client twice.
  pre: len(flips) == 5
  pre: 1 <= start <= 2
  post: __return__
  """
  tape = []
  for f in flips:
    tape += ([1, 0] if f else [0, 1]) + [0]
  return scenario_stream(CS, S, M, 3, 2, start, False, tape=tape) is None


def stream_sampler(n: int, cohort: int, start: int, seed0: bool) -> bool:
  """
  pre: 2 <= n <= 4
  pre: 1 <= cohort <= 2
  pre: 0 <= start <= 2
  post: __return__
  """
  return scenario_stream(CS, S, M, n, cohort, start, seed0) is None
