"""CrossHair harness for C19: downloaded and decompressed cache files appear only when complete."""
import os
from typing import List

import fedjax.datasets.downloads  # noqa: real package first
import fs_model
import xload

BLOCK = 1 << 18
LENGTHS = [0, 100, BLOCK, BLOCK + 100, 2 * BLOCK + 100]
LCFG = int(os.environ.get('C19_LEN', '1'))
CACHE = '/cache'
URL = 'https://example.org/data/file.bin.lzma'


def scaled_blocks(n):
  """The body as (bytes, virtual length) pieces: every 256 KiB block is represented by 3 real bytes, the tail by 2."""
  out, k = [], 0
  while n > 0:
    v = min(n, BLOCK)
    out.append((bytes([65 + k]) * (3 if v == BLOCK else 4), v))
    n -= v
    k += 1
  return out


VLEN = LENGTHS[LCFG] + 2                       # virtual content-length of the compressed file (2-byte header)
PIECES = scaled_blocks(VLEN)
COMPRESSED = b''.join(p for p, _ in PIECES)    # what a complete download holds (scaled)
COMPRESSED = b'LZ' + COMPRESSED[2:] if len(COMPRESSED) >= 2 else b'LZ'
PIECES = [(COMPRESSED[sum(len(q) for q, _ in PIECES[:i]):sum(len(q) for q, _ in PIECES[:i + 1])], v) for i, (p, v) in enumerate(PIECES)]
if not PIECES:
  PIECES = [(b'LZ', 2)]
PAYLOAD = COMPRESSED[2:]                       # model compression: a 2-byte header + payload


def _vscale(v):
  """virtual -> stored size under scaled_blocks: 3 bytes per full 256 KiB block, 4 for a shorter tail."""
  return 3 * (v // BLOCK) + (4 if v % BLOCK else 0)


fs_model.VSCALE = _vscale


import requests as _real_requests


class NetFault(_real_requests.exceptions.ConnectionError, ConnectionError):
  """A dropped connection: an instance of the exception types real code would name in an `except` clause."""


class HttpFault(_real_requests.exceptions.HTTPError):
  """raise_for_status() on a 4xx/5xx answer."""


class ModelGap(Exception):
  """The code under test used a part of an API that the environment model does not provide: no verdict."""


MODEL_NAMES = ('_Lzma', 'LZMADecompressor', 'Net', 'Resp', 'Raw', '_Writer', '_Reader', 'OSFacade', 'OSPathFacade', '_Builder', '_SqliteStub', '_FSProxy', 'ModelFS', 'DiskFS')


def is_model_gap(e):
  return isinstance(e, NotImplementedError) or (isinstance(e, AttributeError) and any(("'%s'" % n) in str(e) for n in MODEL_NAMES))


class Net:
  """requests model: the body arrives in blocks; raw.read may raise at a chosen block."""

  exceptions = _real_requests.exceptions
  HTTPError = _real_requests.HTTPError
  ConnectionError = _real_requests.ConnectionError

  def __init__(self, fs):
    self.fs = fs
    self.calls = 0
    self.fail_block = -1
    self.http_error = False      # answer the next GET with 403 and an error page

  def get(self, url, stream=False):
    self.calls += 1
    net = self
    refused, self.http_error = self.http_error, False
    error_page = b'<html>403 Forbidden</html>'

    class Raw:
      nread = 0

      def read(self, n):
        net.fs.tick('net-read')          # a process crash can also happen while waiting for the network
        if self.nread == net.fail_block:
          net.fail_block = -1          # a transient fault: the next request (a retry inside the same call included) goes through
          raise NetFault('connection reset')
        k = self.nread
        self.nread += 1
        if refused:
          return error_page if k == 0 else b''
        if k >= len(PIECES):
          return b''
        piece, v = PIECES[k]
        return fs_model.VBytes(piece, v)

    class Resp:
      headers = {'content-length': str(len(error_page) if refused else VLEN)}
      raw = Raw()
      status_code = 403 if refused else 200
      reason = 'Forbidden' if refused else 'OK'
      ok = not refused

      def raise_for_status(self):
        if refused:
          raise HttpFault('403 Client Error: Forbidden for url: ' + url)

      def close(self):
        pass
    return Resp()


class _Lzma:
  """lzma model: a 2-byte header, the payload, and an end of stream that sits after the last byte of the complete compressed
  file (the container knows its length): a stream that stops earlier is truncated, bytes after it are unused data."""

  def __init__(self, fs):
    self.fs = fs

  class LZMAError(Exception):
    pass

  def open(self, path, mode='rb'):
    return fs_model._Reader(self.decompress(self.fs.read(path)))

  @staticmethod
  def decompress(data):
    data = bytes(data)
    if data[:2] != b'LZ':
      raise _Lzma.LZMAError('Input format not supported by decoder')
    if len(data) < len(COMPRESSED):
      raise EOFError('Compressed file ended before the end-of-stream marker was reached')
    return data[2:len(COMPRESSED)]

  class LZMADecompressor:
    """Incremental decoder: returns what it has, never complains about a short stream (callers must look at `eof`)."""

    def __init__(self, *a, **k):
      self.fed = b''
      self.given = 0
      self.eof = False
      self.unused_data = b''
      self.needs_input = True

    def decompress(self, data, max_length=-1):
      if self.eof:
        raise EOFError('Already at end of stream')
      self.fed += bytes(data)
      if len(self.fed) >= 2 and self.fed[:2] != b'LZ' or len(self.fed) == 1 and self.fed != b'L':
        raise _Lzma.LZMAError('Input format not supported by decoder')
      if len(self.fed) >= len(COMPRESSED):
        self.eof = True
        self.needs_input = False
        self.unused_data = self.fed[len(COMPRESSED):]
      out = self.fed[2:len(COMPRESSED)][self.given:]
      self.given += len(out)
      return out


_FSBOX = [None]
_NET = Net(None)


class _FSProxy:
  def __getattr__(self, name):
    return getattr(_FSBOX[0], name)


_PROXY = _FSProxy()


def _post(mod):
  mod.os = fs_model.OSFacade(_PROXY)
  mod.open = lambda path, mode='r': fs_model.open_file(_PROXY, path, mode)
  mod.requests = _NET
  mod.lzma = _Lzma(_PROXY)
  mod.log = lambda *a, **k: None


DL = xload.load_real('fedjax/datasets/downloads.py', 'dl_sym', post=_post)


import hashlib
import fedjax.datasets.cifar100  # noqa: real package first

CLIENTS = [(b'c0', b'A' * 40), (b'c1', b'B' * 40), (b'c2', b'C' * 40)]
BUILT = b'SQLITE' + b''.join(cid + data for cid, data in CLIENTS)


class _Builder:
  """Model of SQLiteFederatedDataBuilder on the fs model: CREATE TABLE on construction (fails on an existing table),
  one durable effect per inserted client, nothing more on close."""

  def __init__(self, path):
    if _PROXY.exists(path):
      raise RuntimeError('table federated_data already exists')
    self.path = path
    self.handle = _PROXY.create(path)
    _PROXY.append(self.handle, b'SQLITE')

  def __enter__(self):
    return self

  def __exit__(self, *a):
    _PROXY.close(self.handle)
    return False

  def add_many(self, items):
    for cid, data in items:
      _PROXY.append(self.handle, cid + data)


class _Examples:
  def __init__(self, data):
    self.data = data

  def all_examples(self):
    return self.data


class _SqliteStub:
  SQLiteFederatedDataBuilder = _Builder

  @staticmethod
  def TFFSQLiteClientsIterator(path, parse, split):
    return iter([(cid, _Examples(data)) for cid, data in CLIENTS])

  class SQLiteFederatedData:
    @staticmethod
    def new(path):
      return ('SQLiteFederatedData', path)


def _post_cifar(mod):
  mod.os = fs_model.OSFacade(_PROXY)
  mod.downloads = DL
  mod.sqlite_federated_data = _SqliteStub
  mod._TFF_SQLITE_COMPRESSED_NUM_BYTES = len(COMPRESSED)      # validate_file reads the (stored) content and takes its len()
  mod._TFF_SQLITE_COMPRESSED_HEXDIGEST = hashlib.sha256(COMPRESSED).hexdigest()
  mod._FEDJAX_SQLITE_NUM_BYTES = {'train': len(BUILT), 'test': len(BUILT)}
  mod._FEDJAX_SQLITE_HEXDIGEST = {'train': hashlib.sha256(BUILT).hexdigest(), 'test': hashlib.sha256(BUILT).hexdigest()}


CIFAR = xload.load_real('fedjax/datasets/cifar100.py', 'cifar_sym', post=_post_cifar)
_DEFAULT_PROGRESS = DL.maybe_download.__defaults__


def scenario_cifar(fs_factory, crashes, cut):
  """cifar100.load_split('train', cache_dir=...) with crashes; the produced SQLite file appears only when complete."""
  fs = fs_factory()
  use_fs(fs)
  _NET.calls = 0
  _NET.fail_block = -1
  DL.maybe_download.__defaults__ = (CACHE, range)      # silent progress callback (the default one only logs)
  violations = []
  final = CACHE + '/federated_cifar100_train.sqlite'
  done = False
  try:
    for c in list(crashes) + [-1]:
      fs.arm(c, cut)
      try:
        out = CIFAR.load_split('train', cache_dir=CACHE)
        done = True
      except fs_model.Crash:
        done = False
      except Exception as e:   # pylint: disable=broad-except
        if is_model_gap(e):
          raise ModelGap('%s: %s' % (type(e).__name__, e))
        violations.append('a later call raised %s: %s' % (type(e).__name__, str(e)[:80]))
        break
      bad = cache_state_ok(fs)
      if not bad and fs.exists(final) and fs.read(final) != BUILT:
        bad = 'built file %s is visible under its final name with %d of %d bytes' % (final, fs.size(final), len(BUILT))
      if bad:
        violations.append(bad)
        break
    fs.arm(-1)
    if not violations and (not done or out != ('SQLiteFederatedData', final) or fs.read(final) != BUILT):
      violations.append('the final uninterrupted call did not produce the complete file')
    if not violations:
      before = _NET.calls
      CIFAR.load_split('train', cache_dir=CACHE)
      if _NET.calls != before:
        violations.append('complete cache fetched again')
  finally:
    DL.maybe_download.__defaults__ = _DEFAULT_PROGRESS
    if hasattr(fs, 'cleanup'):
      fs.cleanup()
  return violations


def use_fs(fs):
  _FSBOX[0] = fs
  _NET.fs = fs


def fetch():
  path = DL.maybe_download(URL, CACHE, progress_=range)
  return path, DL.maybe_lzma_decompress(path)


def final_paths():
  return CACHE + '/file.bin.lzma', CACHE + '/file.bin'


def cache_state_ok(fs):
  cpath, dpath = final_paths()
  if fs.exists(cpath) and fs.read(cpath) != COMPRESSED:
    return 'downloaded file %s is visible under its final name with %d of %d bytes' % (cpath, fs.size(cpath), VLEN)
  if fs.exists(dpath) and fs.read(dpath) != PAYLOAD:
    return 'decompressed file %s is visible under its final name with %d of %d bytes' % (dpath, fs.size(dpath), len(PAYLOAD))
  return None


def scenario(fs_factory, crashes, cut, net_fail):
  fs = fs_factory()
  use_fs(fs)
  _NET.calls = 0
  violations = []
  first = True
  attempts = list(crashes) + [-1]
  for c in attempts:
    fs.arm(c, cut)
    _NET.fail_block = net_fail if (first and net_fail != 4) else -1
    _NET.http_error = first and net_fail == 4
    first = False
    try:
      cpath, dpath = fetch()
      done = True
    except (fs_model.Crash, NetFault, HttpFault):
      done = False
    except Exception as e:   # pylint: disable=broad-except
      if is_model_gap(e):
        raise ModelGap('%s: %s' % (type(e).__name__, e))
      violations.append('a later call raised %s: %s' % (type(e).__name__, str(e)[:80]))
      break
    bad = cache_state_ok(fs)
    if bad:
      violations.append(bad)
      break
  fs.arm(-1)
  _NET.fail_block = -1
  if not violations:
    if not done:
      violations.append('the final uninterrupted call did not complete')
    elif (cpath, dpath) != final_paths() or fs.read(cpath) != COMPRESSED or fs.read(dpath) != PAYLOAD:
      violations.append('the final call returned an incomplete file')
    else:
      # a complete cache is reused without touching the network
      before = _NET.calls
      fetch()
      if _NET.calls != before:
        violations.append('a complete cached file was fetched again (%d network calls)' % (_NET.calls - before))
      try:
        DL.validate_file(cpath, len(COMPRESSED), __import__('hashlib').sha256(COMPRESSED).hexdigest())
      except ValueError as e:
        violations.append('validate_file rejects the complete file: %s' % e)
      for wrong in ((len(COMPRESSED) + 1, None), (len(COMPRESSED), '00')):
        try:
          DL.validate_file(cpath, wrong[0], wrong[1] or __import__('hashlib').sha256(COMPRESSED).hexdigest())
          violations.append('validate_file accepts a wrong size/hash')
        except ValueError:
          pass
  if hasattr(fs, 'cleanup'):
    fs.cleanup()
  return violations


def _count_effects(fn):
  fs = fs_model.ModelFS()
  use_fs(fs)
  _NET.fail_block = -1
  fn()
  return fs.effects


NEFF = _count_effects(fetch)


def _cifar_once():
  DL.maybe_download.__defaults__ = (CACHE, range)
  try:
    CIFAR.load_split('train', cache_dir=CACHE)
  finally:
    DL.maybe_download.__defaults__ = _DEFAULT_PROGRESS


NEFF_CIFAR = _count_effects(_cifar_once)


def cache1(c1: int, cut: int) -> bool:
  """
  pre: 0 <= c1 <= NEFF
  pre: 0 <= cut <= 2
  post: __return__
  """
  return not scenario(fs_model.ModelFS, [c1], cut, -1)


def cache_net(net_fail: int, c2: int) -> bool:
  """
  A network fault at block `net_fail` (4: the server answers 403 with an error page) in the first attempt, then (optionally)
  a crash in the second, then a clean call.
  pre: 0 <= net_fail <= 4
  pre: -1 <= c2 <= NEFF
  post: __return__
  """
  return not scenario(fs_model.ModelFS, [-1] + ([c2] if c2 >= 0 else []), 1, net_fail)


def cache2(c1: int, c2: int) -> bool:
  """
  pre: 0 <= c1 <= NEFF
  pre: 0 <= c2 <= NEFF
  post: __return__
  """
  return not scenario(fs_model.ModelFS, [c1, c2], 1, -1)


def cache_reach(c1: int, cut: int) -> bool:
  """
  pre: 0 <= c1 <= NEFF
  pre: 0 <= cut <= 2
  post: not __return__
  """
  return not scenario(fs_model.ModelFS, [c1], cut, -1)


def cifar1(c1: int, cut: int) -> bool:
  """
  pre: 0 <= c1 <= NEFF_CIFAR
  pre: 0 <= cut <= 2
  post: __return__
  """
  return not scenario_cifar(fs_model.ModelFS, [c1], cut)


def cifar2(c1: int, c2: int) -> bool:
  """
  pre: 0 <= c1 <= NEFF_CIFAR
  pre: 0 <= c2 <= NEFF_CIFAR
  post: __return__
  """
  return not scenario_cifar(fs_model.ModelFS, [c1, c2], 1)


def scenario_empty_body(fs_factory, crashes):
  """maybe_download of a 0-byte body: the (empty) complete file is reused without touching the network."""
  global VLEN, PIECES
  saved = (VLEN, PIECES)
  VLEN, PIECES = 0, []
  fs = fs_factory()
  use_fs(fs)
  _NET.calls = 0
  _NET.fail_block = -1
  violations = []
  try:
    done = False
    for c in list(crashes) + [-1]:
      fs.arm(c, 0)
      try:
        path = DL.maybe_download('https://example.org/empty.bin', CACHE, progress_=range)
        done = True
      except fs_model.Crash:
        done = False
    fs.arm(-1)
    if not done or not fs.exists(CACHE + '/empty.bin') or fs.read(CACHE + '/empty.bin') != b'':
      violations.append('empty body not cached as a complete (empty) file')
    else:
      before = _NET.calls
      DL.maybe_download('https://example.org/empty.bin', CACHE, progress_=range)
      if _NET.calls != before:
        violations.append('a complete (empty) cached file was fetched again')
  finally:
    VLEN, PIECES = saved
    if hasattr(fs, 'cleanup'):
      fs.cleanup()
  return violations


def empty_body(c1: int) -> bool:
  """
  pre: -1 <= c1 <= 4
  post: __return__
  """
  return not scenario_empty_body(fs_model.ModelFS, [c1] if c1 >= 0 else [])


def scenario_foreign(fs_factory, keep, repair):
  """A compressed file that some other tool / an older fetch left cut short after `keep` (stored) bytes sits under the .lzma name:
  maybe_lzma_decompress may fail, but the decompressed name must not appear with anything but the complete content; once the
  compressed file is whole again (`repair`), a later call produces the complete file."""
  fs = fs_factory()
  use_fs(fs)
  cpath, dpath = final_paths()
  violations = []
  try:
    fs.arm(-1)
    h = fs.create(cpath)
    fs.append(h, COMPRESSED[:keep], None)
    fs.close(h)
    try:
      DL.maybe_lzma_decompress(cpath)
    except fs_model.Crash:
      raise
    except Exception as e:   # pylint: disable=broad-except
      if is_model_gap(e):
        raise ModelGap('%s: %s' % (type(e).__name__, e))
    if fs.exists(dpath) and fs.read(dpath) != PAYLOAD:
      violations.append('decompressed file %s is visible under its final name with %d of %d bytes (compressed input cut at %d)'
                        % (dpath, len(fs.read(dpath)), len(PAYLOAD), keep))
    elif repair:
      h = fs.create(cpath)
      fs.append(h, COMPRESSED, None)
      fs.close(h)
      try:
        out = DL.maybe_lzma_decompress(cpath)
        if out != dpath or not fs.exists(dpath) or fs.read(dpath) != PAYLOAD:
          violations.append('the final call returned an incomplete file after the compressed file was repaired')
      except Exception as e:   # pylint: disable=broad-except
        if is_model_gap(e):
          raise ModelGap('%s: %s' % (type(e).__name__, e))
        violations.append('a later call raised %s: %s' % (type(e).__name__, str(e)[:80]))
  finally:
    if hasattr(fs, 'cleanup'):
      fs.cleanup()
  return violations


def foreign(keep: int, repair: bool) -> bool:
  """
  pre: 0 <= keep < len(COMPRESSED)
  post: __return__
  """
  return not scenario_foreign(fs_model.ModelFS, keep, repair)
