"""Uniform access to model arrays (np_lite) and real numpy arrays, so that one oracle serves CrossHair and replay."""
import os
import np_lite


def _tup(x):
  return tuple(_tup(v) for v in x) if isinstance(x, (list, tuple)) else x


class ModelNP:
  np = np_lite

  @staticmethod
  def arr(rows, dtype='int64', trailing=()):
    return np_lite.ndarray(list(rows), dtype, trailing)

  @staticmethod
  def rows(a):
    return list(a.rows)

  @staticmethod
  def dtype(a):
    return str(a.dtype)

  @staticmethod
  def trailing(a):
    return tuple(a.trailing)


class RealNP:
  import numpy as np

  @staticmethod
  def arr(rows, dtype='int64', trailing=()):
    import numpy
    rows = list(rows)
    if not rows:
      return numpy.zeros((0,) + tuple(trailing), dtype)
    return numpy.asarray(rows, dtype=dtype)

  @staticmethod
  def rows(a):
    return [_tup(v) for v in a.tolist()]

  @staticmethod
  def dtype(a):
    return str(a.dtype)

  @staticmethod
  def trailing(a):
    return tuple(a.shape[1:])


def load_model_cd(name='cd_sym'):
  import fedjax.core.dataclasses  # noqa: real dependency first
  import xload
  return xload.load_real('fedjax/core/client_datasets.py', name, {'numpy': np_lite})


def load_real_cd():
  from fedjax.core import client_datasets
  return client_datasets


_STACK = {}


SET_ORDER = [0]     # which iteration order unordered containers use right now (a different process = a different value)


class OrderFreeSet:
  """Model of a hash set of str/bytes ids: iteration order is NOT a function of the contents (CPython randomises the
  hash seed per process).  The order is sorted(contents) rotated by SET_ORDER[0] // 2 and reversed when SET_ORDER[0] is
  odd; code whose result must be reproducible may not depend on it.  Membership is by `==` over a list (a real hash set
  would force CrossHair to realise a symbolic probe id value by value)."""

  def __init__(self, it=()):
    self._items = []
    for x in it:
      self.add(x)

  def _has(self, x):
    for y in self._items:
      if x == y:
        return True
    return False

  def add(self, x):
    if not self._has(x):
      self._items.append(x)

  def discard(self, x):
    self._items = [y for y in self._items if not (x == y)]

  def remove(self, x):
    if not self._has(x):
      raise KeyError(x)
    self.discard(x)

  def __contains__(self, x):
    return self._has(x)

  def __len__(self):
    return len(self._items)

  def __bool__(self):
    return bool(self._items)

  def __iter__(self):
    items = sorted(self._items)
    k = SET_ORDER[0]
    if items:
      r = (k // 2) % len(items)
      items = items[r:] + items[:r]
    if k % 2:
      items.reverse()
    return iter(items)

  def copy(self):
    return OrderFreeSet(self._items)

  def difference(self, *others):
    out = self.copy()
    for o in others:
      for x in list(o):
        out.discard(x)
    return out

  def union(self, *others):
    out = self.copy()
    for o in others:
      for x in list(o):
        out.add(x)
    return out

  def intersection(self, *others):
    out = self.copy()
    for o in others:
      o = list(o)
      out = OrderFreeSet(x for x in out._items if any(x == y for y in o))
    return out

  def issubset(self, other):
    o = list(other)
    return all(any(x == y for y in o) for x in self._items)

  __sub__ = difference
  __or__ = union
  __and__ = intersection

  def __isub__(self, other):      # in place, like set.__isub__: every holder of this object sees the change
    for x in list(other):
      self.discard(x)
    return self

  def __ior__(self, other):
    for x in list(other):
      self.add(x)
    return self

  def __iand__(self, other):
    o = list(other)
    self._items = [x for x in self._items if any(x == y for y in o)]
    return self

  def __eq__(self, other):
    if not isinstance(other, (OrderFreeSet, set, frozenset)):
      return NotImplemented
    o = list(other)
    return len(o) == len(self._items) and all(any(x == y for y in o) for x in self._items)

  __hash__ = None

  def __repr__(self):
    return 'OrderFreeSet(%r)' % (sorted(self._items),)


def load_model_stack():
  """client_datasets, federated_data, in_memory_federated_data loaded from the real sources over np_lite."""
  if _STACK:
    return _STACK
  import fedjax.core.federated_data  # noqa: real packages imported first
  import xload
  cdm = load_model_cd('cd_sym')
  fdm = xload.load_real('fedjax/core/federated_data.py', 'fd_sym', {'numpy': np_lite},
                        attr_overrides={('fedjax.core', 'client_datasets'): cdm})
  imm = xload.load_real('fedjax/core/in_memory_federated_data.py', 'imfd_sym', {'numpy': np_lite},
                        attr_overrides={('fedjax.core', 'client_datasets'): cdm, ('fedjax.core', 'federated_data'): fdm})
  fdm.set = OrderFreeSet      # the module's `set(...)` calls (and isinstance(x, set)) refer to the order-free model
  _STACK.update(cd=cdm, fd=fdm, im=imm)
  return _STACK


def load_real_stack():
  from fedjax.core import client_datasets, federated_data, in_memory_federated_data
  return dict(cd=client_datasets, fd=federated_data, im=in_memory_federated_data)
