"""Uniform access to model arrays (np_lite) and real numpy arrays, so that one oracle serves CrossHair and replay."""
import np_lite


def _tup(x):
  return tuple(_tup(v) for v in x) if isinstance(x, (list, tuple)) else x


class ModelNP:
  np = np_lite

  @staticmethod
  def arr(rows, dtype='int64', trailing=()):
    return np_lite.ndarray(list(rows), dtype, trailing)

  @staticmethod
  def rows(a):
    return list(a.rows)

  @staticmethod
  def dtype(a):
    return str(a.dtype)

  @staticmethod
  def trailing(a):
    return tuple(a.trailing)


class RealNP:
  import numpy as np

  @staticmethod
  def arr(rows, dtype='int64', trailing=()):
    import numpy
    rows = list(rows)
    if not rows:
      return numpy.zeros((0,) + tuple(trailing), dtype)
    return numpy.asarray(rows, dtype=dtype)

  @staticmethod
  def rows(a):
    return [_tup(v) for v in a.tolist()]

  @staticmethod
  def dtype(a):
    return str(a.dtype)

  @staticmethod
  def trailing(a):
    return tuple(a.shape[1:])


def load_model_cd(name='cd_sym'):
  import fedjax.core.dataclasses  # noqa: real dependency first
  import xload
  return xload.load_real('fedjax/core/client_datasets.py', name, {'numpy': np_lite})


def load_real_cd():
  from fedjax.core import client_datasets
  return client_datasets


_STACK = {}


def load_model_stack():
  """client_datasets, federated_data, in_memory_federated_data loaded from the real sources over np_lite."""
  if _STACK:
    return _STACK
  import fedjax.core.federated_data  # noqa: real packages imported first
  import xload
  cdm = load_model_cd('cd_sym')
  fdm = xload.load_real('fedjax/core/federated_data.py', 'fd_sym', {'numpy': np_lite},
                        attr_overrides={('fedjax.core', 'client_datasets'): cdm})
  imm = xload.load_real('fedjax/core/in_memory_federated_data.py', 'imfd_sym', {'numpy': np_lite},
                        attr_overrides={('fedjax.core', 'client_datasets'): cdm, ('fedjax.core', 'federated_data'): fdm})
  _STACK.update(cd=cdm, fd=fdm, im=imm)
  return _STACK


def load_real_stack():
  from fedjax.core import client_datasets, federated_data, in_memory_federated_data
  return dict(cd=client_datasets, fd=federated_data, im=in_memory_federated_data)
