"""Engine X: CrossHair (z3 per path) on the real Python source with a modelled environment."""
import concurrent.futures
import os
import re
import subprocess
import sys
import time

from .common import VERIF, REPO

HARNESS_DIR = os.path.join(VERIF, 'vf', 'xharness')


def find_line(path, func):
  for i, l in enumerate(open(path).read().splitlines(), 1):
    if re.match(r'\s*def %s\(' % re.escape(func), l):
      return i + 1
  raise KeyError(func)


def run_one(harness, func, timeout, env=None, per_path=None):
  """Runs `crosshair check --report_all` on one contract.  Returns dict(status, message, args, secs)."""
  path = os.path.join(HARNESS_DIR, harness)
  line = find_line(path, func)
  e = dict(os.environ)
  e['PYTHONPATH'] = os.pathsep.join([VERIF, REPO, HARNESS_DIR])
  e.setdefault('JAX_PLATFORMS', 'cpu')
  e['TF_CPP_MIN_LOG_LEVEL'] = '3'
  e['PYTHONWARNINGS'] = 'ignore'
  e.update(env or {})
  cmd = [sys.executable, '-m', 'crosshair', 'check', '--report_all', '--per_condition_timeout', str(timeout)]
  if per_path:
    cmd += ['--per_path_timeout', str(per_path)]
  cmd += ['%s:%d' % (path, line)]
  t0 = time.time()
  try:
    r = subprocess.run(cmd, env=e, capture_output=True, text=True, timeout=timeout * 3 + 120, cwd=HARNESS_DIR)
    out = r.stdout + '\n' + r.stderr
  except subprocess.TimeoutExpired as ex:
    return {'func': func, 'status': 'unknown', 'message': 'crosshair process timed out', 'args': None, 'secs': time.time() - t0}
  secs = time.time() - t0
  lines = [l for l in out.splitlines() if os.path.basename(path) in l and (': error:' in l or ': info:' in l)]
  msg = lines[-1].split(': ', 2)[-1] if lines else out.strip()[-400:]
  status, args = 'unknown', None
  for l in lines:
    if 'Confirmed over all paths' in l:
      status = 'confirmed'
    elif ': error:' in l:
      status = 'refuted'
      msg = l.split(': error: ', 1)[1]
      if 'when calling' not in msg:      # multi-line exception text: the call is on a later line of the output
        tail = out[out.index(l):]
        k = tail.find('when calling %s(' % func)
        if k >= 0:
          msg = msg + ' ... ' + tail[k:].splitlines()[0]
      m = re.search(r'when calling %s\((.*?)\)(?: with crosshair\.patch_to_return\(.*\))?(?: \(which returns .*\))?\s*$' % re.escape(func), msg)
      if m:
        args = m.group(1)
      break
    elif 'Not confirmed' in l or 'Unable to meet precondition' in l:
      status = 'unknown'
  if not lines:
    status = 'error'
  return {'func': func, 'status': status, 'message': msg[:600], 'args': args, 'secs': secs}


def parse_args(argstr, extra_ns=None, names=None):
  """Counterexample arguments as a dict; positional arguments are named after `names`."""
  ns = {'__builtins__': {'None': None, 'True': True, 'False': False, 'dict': dict, 'list': list, 'tuple': tuple, 'bytes': bytes,
                         'float': float, 'int': int}}
  ns.update(extra_ns or {})
  ns['_capture'] = lambda *a, **k: (a, k)
  a, k = eval('_capture(' + argstr + ')', ns)   # pylint: disable=eval-used
  out = dict(k)
  for i, v in enumerate(a):
    out[(names or [])[i] if names and i < len(names) else 'arg%d' % i] = v
  return out


def path_of(harness):
  return os.path.join(HARNESS_DIR, harness)


def names_of(path, func):
  m = re.search(r'def %s\((.*?)\)\s*(?:->.*)?:' % re.escape(func), open(path).read(), re.S)
  if not m:
    return []
  return [p.split(':')[0].split('=')[0].strip() for p in m.group(1).split(',') if p.strip()]


def run_many(jobs, workers=12):
  """jobs: list of (harness, func, timeout, env).  Runs in parallel; returns results in order."""
  with concurrent.futures.ThreadPoolExecutor(max_workers=workers) as ex:
    futs = [ex.submit(run_one, h, f, t, env) for h, f, t, env in jobs]
    return [f.result() for f in futs]


def discharge(run, harness, specs, timeout, replay_fn, env=None, key_prefix=''):
  """specs: list of (func, kind) with kind 'prop' (must be Confirmed) or 'reach' (must be refuted: vacuity twin).
  replay_fn(func, args_dict) -> (bool reproduced, message)."""
  specs = [tuple(sp) + (None, '')[len(sp) - 2:] for sp in specs]       # (func, kind[, extra env, label])
  res = run_many([(harness, f, timeout, dict(env or {}, **(ex or {})) or None) for f, _, ex, _ in specs])
  for (func, kind, _, label), r in zip(specs, res):
    name = '%s:%s%s' % (harness.replace('.py', ''), func, label or '')
    if kind == 'reach':
      run.witness(name, 'reach', r['status'] == 'refuted', r['message'][:200])
      continue
    if r['status'] == 'confirmed':
      run.ob(name, 'confirmed', r['secs'], detail={'crosshair': 'Confirmed over all paths', 'contract': func})
    elif r['status'] == 'refuted':
      run.ob(name, 'sat', r['secs'], detail=r['message'][:400])
      args = None
      try:
        args = parse_args(r['args'], names=names_of(path_of(harness), func)) if r['args'] is not None else None
      except Exception as ex:   # pylint: disable=broad-except
        run.fail('%s: could not parse counterexample %r (%r)' % (name, r['args'], ex))
        continue
      if args is None:
        run.fail('%s: refuted without arguments: %s' % (name, r['message'][:200]))
        continue
      try:
        ok, msg = replay_fn(func, args)
      except Exception as ex:   # pylint: disable=broad-except
        ok, msg = False, 'replay raised %r' % (ex,)
      run.violation(key_prefix + func, '%s fails for %s: %s' % (func, r['args'][:300], msg), {'harness': harness, 'func': func, 'args': repr(args)}, ok)
    else:
      run.ob(name, 'unknown' if r['status'] == 'unknown' else 'error', r['secs'], detail=r['message'][:300])
  return res


def concrete_probe(run, name, bad, msg, replay_input):
  """Concrete layer of an Engine-X check: the property's oracle on the REAL code and real libraries for a few literal inputs.
  A failure is a real failing input against the real code, hence a violation (not merely a broken witness)."""
  run.ob('concrete:' + name, 'sat' if bad else 'unsat', detail=msg if bad else None, nontrivial=False)
  if bad:
    run.violation('concrete:' + name, 'real code fails the oracle on a literal input (%s): %s' % (name, msg), replay_input, True)
