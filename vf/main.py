"""Entry point: python -m vf.main <id> [--tier quick|thorough] [--replay path]"""
import argparse
import importlib
import json
import os
import sys
import traceback

from . import common


def main():
  ap = argparse.ArgumentParser()
  ap.add_argument('pid')
  ap.add_argument('--tier', default=os.environ.get('VERIF_TIER', 'quick'))
  ap.add_argument('--replay', default=None)
  a = ap.parse_args()
  seed = int(os.environ.get('VERIF_SEED', '0'))
  mod = importlib.import_module('vf.props.' + a.pid.lower())
  if a.replay:
    data = json.load(open(a.replay))
    ok, msg = mod.replay(data)
    print(('REPRODUCED: ' if ok else 'NOT-REPRODUCED: ') + str(msg))
    sys.exit(3 if ok else 0)
  run = common.Run(a.pid, a.tier if a.tier in ('quick', 'thorough') else 'quick', seed)
  try:
    from . import symjx
    symjx.CROSS['budget'] = int(os.environ.get('VERIF_CROSSCHECK', '25' if run.tier == 'quick' else '400'))
  except Exception:   # Engine-X-only environments
    symjx = None
  try:
    import fedjax
    where = os.path.realpath(os.path.dirname(os.path.dirname(fedjax.__file__)))
    if where != os.path.realpath(common.REPO):
      raise RuntimeError('fedjax is imported from %s, not from the tree under verification %s' % (where, common.REPO))
  except Exception as e:   # pylint: disable=broad-except
    run.fail('harness error: %r' % (e,))
    sys.exit(run.finish(getattr(mod, 'LEVEL', 'model_checking')))
  try:
    mod.check(run)
  except Exception as e:   # harness error => inconclusive, never success
    traceback.print_exc()
    run.fail('harness error: %r' % (e,))
  if symjx is not None and symjx.CROSS['checked']:
    run.extra['cvc5_crosscheck'] = {k: symjx.CROSS[k] for k in ('checked', 'agree', 'unknown', 'errors', 'disagree')}
    if symjx.CROSS['disagree']:
      run.fail('cvc5 disagrees with z3 on %d queries' % symjx.CROSS['disagree'])
  if symjx is not None and symjx.RETRIES['tried']:
    run.extra['reseeded_retries_after_unknown'] = dict(symjx.RETRIES)
  if symjx is not None and symjx.FALSIFY['attempts']:
    run.extra['guided_model_search_after_unknown'] = {k: symjx.FALSIFY[k] for k in ('attempts', 'found')}
  sys.exit(run.finish(getattr(mod, 'LEVEL', 'model_checking')))


if __name__ == '__main__':
  main()
