#!/bin/sh
# Build the overlay venv (offline): /venv's packages + z3-solver + crosshair-tool from the wheelhouse.
set -e
cd "$(dirname "$0")"
V=/verif/.venv
if [ ! -x $V/bin/python ] || ! $V/bin/python -c "import z3, crosshair, jax, cvc5" 2>/dev/null; then
  rm -rf $V
  /venv/bin/python -m venv $V
  echo "import site; site.addsitedir('/venv/lib/python3.12/site-packages')" > $V/lib/python3.12/site-packages/_overlay.pth
  PIP_NO_INDEX=1 $V/bin/pip install -q --no-index --find-links /opt/veriftools/wheels crosshair-tool z3-solver cvc5
fi
$V/bin/python -c "import z3, crosshair, jax; print('overlay ok', z3.get_version_string(), jax.__version__)"
