#!/bin/sh
# usage: confirm_batch.sh <ID> <m...>  (sequential worktree creation is inside confirm_seed; stagger starts)
ID=$1; shift
for m in "$@"; do
  /venv/bin/python /verif/tools/confirm_seed.py /tmp/mut/$ID.out/$m ${ID}_$m $ID > /tmp/seedchk_${ID}_$m.log 2>&1 &
  sleep 5
done
wait
