#!/bin/sh
# usage: try_seed.sh <patch.diff> <tier> <id>...   -- applies patch to /repo, runs checks, always reverts
P=$1; T=$2; shift 2
git -C /repo apply "$P" || { echo "patch does not apply"; exit 9; }
for id in "$@"; do
  /verif/check $id --tier $T 2>&1 | grep -E "^(VIOLATION|KNOWN|INCONCLUSIVE|$id tier)|what:" | cut -c1-400
  echo "exit($id)=$?"
done
git -C /repo checkout -- . 
git -C /repo status --short | head -3
