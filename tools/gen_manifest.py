#!/usr/bin/env python3
"""Generates /verif/MANIFEST.json from the table below (single source of truth)."""
import json
import os

V = os.path.dirname(os.path.dirname(os.path.abspath(__file__)))
J = 'jaxpr->SMT symbolic execution (z3)'
X = 'CrossHair symbolic execution of the real Python source (z3)'

CLAIMED = {
    # id: (engine, technique, level text, level note, design ref)
    'C01': ('J', 'symbolic execution of the traced round (jaxpr -> z3 reals + uninterpreted grad/optimizer), '
                 'per-coordinate equivalence queries against the definition, replayed counterexamples',
            'Bounded symbolic equivalence: for each enumerated configuration (<=3 clients, sizes 0..4, batch 1..3, '
            '<=2 rounds, SGD/momentum/Adam/uninterpreted optimizers, jit+debug backends, every client order) z3 shows '
            'that every output coordinate of the real FederatedAlgorithm.apply equals the definition for ALL real '
            'parameters, data and keys. Nothing is claimed outside the enumerated configurations.',
            'floats read as reals with constant de-rounding; interpreter validated against real JAX per run; batch '
            'composition taken from the real ShuffleRepeatBatchView; pmap backend covered by C02 model only',
            'DESIGN.md C01'),
    'C07': ('J', 'symbolic execution of tree_sum/tree_mean/mean_aggregator/clip (jaxpr -> z3 extended reals, Python-level '
                 'forks on traced weights), per-coordinate queries; donation dataflow on the traced IR confirmed by a concrete run',
            'Bounded symbolic check: for 1..3 trees (2 leaves, sizes <=2), symbolic non-negative weights (all fork paths) and '
            'concrete weight vectors, list/generator/iterator feeds, z3 shows every output coordinate equals sum(w p)/sum(w) '
            '(zeros and not NaN when the total is 0), lies in the hull, and that clipping yields norm <= c, parallel, '
            'same orientation, identity below the bound, for ALL leaf values and c > 0.',
            'floats read as reals with NaN/Inf flags; "never invalidates inputs" is decided by dataflow over donated_invars '
            'of the traced IR plus a concrete is_deleted() confirmation (auxiliary, not a solver query)',
            'DESIGN.md C07'),
    'C18': ('J', 'symbolic execution of the transform/rotation (jaxpr -> z3 reals, Rademacher signs from symbolic uniform '
                 'draws named by key term), coordinate-wise equality with the Sylvester matrix product, norm and inverse queries',
            'Bounded symbolic check: for every enumerated (length 2^a, block 2^b) z3 shows walsh_hadamard_transform(x) = H x '
            'for ALL real x; for every enumerated shape, for ALL x and ALL sign patterns, the rotation preserves the norm and '
            'the inverse with the same key restores x in its original shape; different key terms give independent signs.',
            'floats read as reals; 1/sqrt(d) de-rounded to the algebraic constant; lengths 2^9..2^14 not claimed; real jitted '
            'entry point additionally called concretely per configuration',
            'DESIGN.md C18'),
    'C14': ('J', 'symbolic execution of every Metric.evaluate_example (jaxpr -> z3; sort as compare-exchange network, argmax, '
                 'one-hot, scatter), equality with first-principles definitions written directly in z3',
            'Bounded symbolic check: for every metric class and a grid of constructor arguments (k in -3..classes+2, masked '
            'target values, -inf logit masks, per-position) z3 shows accum, weight and result of the single-example statistic '
            'equal an independent rank/count/log-sum-exp definition for ALL score vectors (ties included) and ALL targets, '
            'with classes <= 4 and sequence length <= 3.',
            'scores are reals (+-inf via flags); cross-entropy reference in shifted log-sum-exp form (exp/log uninterpreted); '
            'NaN scores and signed zeros outside the claim',
            'DESIGN.md C14'),
    'C05': ('J', 'symbolic execution of evaluate_model / ModelEvaluator / evaluate_batch / Stat.merge over symbolic prediction '
                 'tables, targets and MASK BITS; equality with the sum of single-example statistics; merge laws on symbolic stats',
            'Bounded symbolic check: for every metric class, <=4 rows split into batches in several ways (incl. empty batches, '
            'permuted rows, no batches), every subset of rows masked as padding with arbitrary content, z3 shows the result equals '
            'sum(accum)/sum(weight) over the unmasked rows (0 and finite when none); merge is associative/commutative with zero '
            'identity for ALL stats in the domain.',
            'single-example statistics are the real evaluate_example traced per row (C14 ties them to definitions); rows <= 4, '
            'classes 3, sequence length 2; float non-associativity outside the claim',
            'DESIGN.md C05'),
}

NOT_APPLICABLE = {
    'C16': 'round-trip correctness is decided inside C extensions (numpy tobytes/frombuffer, msgpack, zlib, pickle, '
           'sqlite3 blobs); CrossHair realises at those boundaries and no IR is available, so a solver-based check '
           'of the real code cannot reach it (DESIGN.md C16)',
}

PENDING = 'check not built yet in this session (planned, see DESIGN.md); not claimed until it runs'


def main():
  ids = [json.loads(l)['id'] for l in open(os.path.join(V, 'properties.jsonl'))]
  checks = []
  for pid in ids:
    if pid not in CLAIMED:
      continue
    eng, tech, text, note, ref = CLAIMED[pid]
    checks.append({
        'property_id': pid,
        'quick_cmd': './check %s --tier quick' % pid,
        'thorough_cmd': './check %s --tier thorough' % pid,
        'evidence_file': '/verif/evidence/%s.json' % pid,
        'replay_cmd_template': './check %s --replay {path}' % pid,
        'engine': 'engine-J' if eng == 'J' else ('engine-X' if eng == 'X' else 'engine-J+X'),
        'level_claimed': {'category': 'model_checking', 'text': text, 'design_ref': ref},
        'level_note': note,
        'technique': tech,
    })
  na = [{'property_id': p, 'reason': NOT_APPLICABLE.get(p, PENDING)} for p in ids if p not in CLAIMED]
  m = {
      'version': 1,
      'setup_cmd': './setup.sh',
      'hooks': {'guard': 'FEDJAX_VERIF', 'enable': 'no source hooks: checks import fedjax from /repo working tree '
                '(PYTHONPATH=/repo) and trace/execute it symbolically; FEDJAX_VERIF=1 is set by ./check but unused',
                'baseline_off_cmd': 'cd /repo && /venv/bin/python -m pytest -ra -q -p no:cacheprovider --timeout=900 '
                '--continue-on-collection-errors', 'source_commits': [], 'add_only': True},
      'engines': [
          {'name': 'engine-J', 'path': 'vf/symjx.py', 'serves_properties': [p for p in ids if p in CLAIMED and CLAIMED[p][0] in ('J', 'JX')],
           'kind_free_text': J},
          {'name': 'engine-X', 'path': 'vf/xh', 'serves_properties': [p for p in ids if p in CLAIMED and CLAIMED[p][0] in ('X', 'JX')],
           'kind_free_text': X},
      ],
      'checks': checks,
      'not_applicable': na,
      'notes': 'Exit codes: 0 held; 1 + VIOLATION line = replay-confirmed violation; 2 = inconclusive (timeout, unknown, '
               'unsupported primitive, non-reproducing model, failed vacuity witness).',
  }
  json.dump(m, open(os.path.join(V, 'MANIFEST.json'), 'w'), indent=1)
  print('claimed', [c['property_id'] for c in checks])


if __name__ == '__main__':
  main()
