#!/usr/bin/env python3
"""Generates /verif/MANIFEST.json from the table below (single source of truth)."""
import json
import os

V = os.path.dirname(os.path.dirname(os.path.abspath(__file__)))
J = 'jaxpr->SMT symbolic execution (z3)'
X = 'CrossHair symbolic execution of the real Python source (z3)'

CLAIMED = {
    # id: (engine, technique, level text, level note, design ref)
    'C01': ('J', 'symbolic execution of the traced round (jaxpr -> z3 reals + uninterpreted grad/optimizer), '
                 'per-coordinate equivalence queries against the definition, replayed counterexamples',
            'Bounded symbolic equivalence: for each enumerated configuration (<=3 clients, sizes 0..4, batch 1..3, '
            '<=2 rounds, SGD/momentum/Adam/uninterpreted optimizers, jit+debug backends, every client order) z3 shows '
            'that every output coordinate of the real FederatedAlgorithm.apply equals the definition for ALL real '
            'parameters, data and keys. Nothing is claimed outside the enumerated configurations.',
            'floats read as reals with constant de-rounding; interpreter validated against real JAX per run; batch '
            'composition taken from the real ShuffleRepeatBatchView; pmap backend covered by C02 model only',
            'DESIGN.md C01'),
    'C07': ('J', 'symbolic execution of tree_sum/tree_mean/mean_aggregator/clip (jaxpr -> z3 extended reals, Python-level '
                 'forks on traced weights), per-coordinate queries; donation dataflow on the traced IR confirmed by a concrete run',
            'Bounded symbolic check: for 1..3 trees (2 leaves, sizes <=2), symbolic non-negative weights (all fork paths) and '
            'concrete weight vectors, list/generator/iterator feeds, z3 shows every output coordinate equals sum(w p)/sum(w) '
            '(zeros and not NaN when the total is 0), lies in the hull, and that clipping yields norm <= c, parallel, '
            'same orientation, identity below the bound, for ALL leaf values and c > 0.',
            'floats read as reals with NaN/Inf flags; "never invalidates inputs" is decided by dataflow over donated_invars '
            'of the traced IR plus a concrete is_deleted() confirmation (auxiliary, not a solver query)',
            'DESIGN.md C07'),
    'C18': ('J', 'symbolic execution of the transform/rotation (jaxpr -> z3 reals, Rademacher signs from symbolic uniform '
                 'draws named by key term), coordinate-wise equality with the Sylvester matrix product, norm and inverse queries',
            'Bounded symbolic check: for every enumerated (length 2^a, block 2^b) z3 shows walsh_hadamard_transform(x) = H x '
            'for ALL real x; for every enumerated shape, for ALL x and ALL sign patterns, the rotation preserves the norm and '
            'the inverse with the same key restores x in its original shape; different key terms give independent signs.',
            'floats read as reals; 1/sqrt(d) de-rounded to the algebraic constant; lengths 2^9..2^14 not claimed; real jitted '
            'entry point additionally called concretely per configuration; acceptance of every valid (length, block) pair up to 2^14 x 2^8 '
            'by abstract evaluation (no solver); caller-owned arrays stay valid: donation dataflow + concrete confirmation',
            'DESIGN.md C18'),
    'C14': ('J', 'symbolic execution of every Metric.evaluate_example (jaxpr -> z3; sort as compare-exchange network, argmax, '
                 'one-hot, scatter), equality with first-principles definitions written directly in z3',
            'Bounded symbolic check: for every metric class and a grid of constructor arguments (k in -3..classes+2, masked '
            'target values, -inf logit masks, per-position) z3 shows accum, weight and result of the single-example statistic '
            'equal an independent rank/count/log-sum-exp definition for ALL score vectors (ties included) and ALL targets, '
            'with classes <= 4 and sequence length <= 3.',
            'scores are reals (+-inf via flags); cross-entropy reference in shifted log-sum-exp form (exp/log uninterpreted); '
            'NaN scores and signed zeros outside the claim',
            'DESIGN.md C14'),
    'C05': ('J', 'symbolic execution of evaluate_model / ModelEvaluator / evaluate_batch / Stat.merge over symbolic prediction '
                 'tables, targets and MASK BITS; equality with the sum of single-example statistics; merge laws on symbolic stats',
            'Bounded symbolic check: for every metric class, <=4 rows split into batches in several ways (incl. empty batches, '
            'permuted rows, no batches), every subset of rows masked as padding with arbitrary content, z3 shows the result equals '
            'sum(accum)/sum(weight) over the unmasked rows (0 and finite when none); merge is associative/commutative with zero '
            'identity for ALL stats in the domain.',
            'single-example statistics are the real evaluate_example traced per row (C14 ties them to definitions); rows <= 4, '
            'classes 3, sequence length 2; float non-associativity outside the claim; padding rows whose own statistic is +inf are included; '
            'the history clause (jit trace cache shared by sibling metrics / models) is exercised only by an auxiliary concrete run',
            'DESIGN.md C05'),
    'C06': ('J', 'symbolic execution of fedjax.grad (real jax.grad through an uninterpreted differentiable loss and a quadratic '
                 'loss), average-loss evaluators, Mime full-batch gradient pass and agnostic per-domain sums over real padded_batch '
                 'geometries; per-coordinate equality with the unpadded definition',
            'Bounded symbolic check: batches <=4 rows with symbolic mask bits (uninterpreted loss) / all 2^B mask patterns '
            '(quadratic loss), datasets <=4 rows under padded geometries (batch 1..5, buckets 1..3), with/without L2 regulariser: '
            'z3 shows gradient, average loss, full-batch gradient and per-domain sums/counts equal those of the real rows only, '
            'regulariser once, 0 (not NaN) without real rows, for ALL parameters, data and padded-row contents.',
            'loss ignores its key for geometry queries; padded rows have arbitrary symbolic content; domain metrics checked with '
            'regularizer=None (as the public algorithm calls it)',
            'DESIGN.md C06'),
    'C10': ('J', 'symbolic execution of apply called twice with the same argument objects (and again on the resulting state) for all '
                 '7 algorithms and 4 compression aggregators; structural snapshot of the argument state; donated_invars dataflow on '
                 'the jit-enabled IR; concrete double-call confirmation',
            'Bounded symbolic check: for each algorithm (2 clients, 2 rounds, momentum optimizers) z3 shows the outputs of two '
            'identical calls are equal for ALL parameter/data/key values, the argument state keeps its container structure and '
            'leaf identities, no leaf of the caller\'s state sits at a donated jit position; aggregator keys advance every round.',
            'serialise-and-continue clause only by an auxiliary concrete run (real save_state/load_state, weak types, bfloat16); '
            'arithmetic-coding encoder only in the auxiliary concrete run; hidden Python state is seen if it changes a repeated call '
            'or the call on a fresh algorithm object',
            'DESIGN.md C10'),
    'C12': ('J', 'symbolic execution of FedProx/HypCluster/MimeLite/Mime/APFL apply and equality, coordinate by coordinate, with '
                 'the definition of a FedAvg round instantiated with the gradient named in the statement',
            'Bounded symbolic check: <=3 clients (sizes 0..4), <=2 rounds, SGD/momentum, quadratic and uninterpreted (key-consuming) '
            'losses: z3 shows FedProx(mu=0), FedProx(symbolic mu>0, proximal loss), single-cluster HypCluster, MimeLite(SGD, lr 1), '
            'APFL global model and one-step Mime produce exactly the FedAvg-definition parameters for ALL values.',
            'reference is the C01 definition (checked against fed_avg by C01); key-ignoring losses where the key schedules differ by design',
            'DESIGN.md C12'),
    'C17': ('J', 'inductive step: one symbolic round from an ARBITRARY pre-state satisfying the invariant (weights in the open '
                 'simplex, arbitrary non-negative window, coefficients in [0,1], arbitrary momentum state), invariant asserted on '
                 'the post-state; HypCluster cluster indexing concretised over all assignments',
            'Bounded inductive check: <=3 domains, window <=3, 2 clusters, <=3 clients: z3 shows the post-state of agnostic FedAvg '
            'has positive finite weights summing to 1 and a correctly shifted window (incl. unseen domains), APFL coefficients stay '
            'in [0,1] for ANY gradients and client_states keys = old + participants, HypCluster assigns by minimal average loss and '
            'updates each cluster from its own clients only (empty clusters bit-identical), MimeLite aggregates only updates of '
            'norm <= c and uses them in the server step, ignore_grads_haiku equals the base optimizer on the trainable sub-tree.',
            'one inductive step covers histories of any length only if the stated invariant is inductive (it is asserted on the '
            'post-state); clip norm > 0 (and 0 with non-zero updates); exp uninterpreted positive',
            'DESIGN.md C17'),
    'C02': ('JX', 'symbolic execution of the jit/debug/pmap backends over UNINTERPRETED client programs (init/step/final; step outputs with '
                  'an uninterpreted NaN flag) and equality with the sequential fold; pmap through an API model (pmap=vmap, sharded=stack, '
                  'replicated=broadcast) plus the real jax.pmap on forced host devices in replays; donation dataflow; CrossHair over the real '
                  'backend-selection code with a threading.local model and a symbolic schedule',
            'Bounded symbolic check: 0..5 clients with 0..3 batches each, 1..4 devices, with/without step results, generator inputs, falsy '
            'ids: z3 shows every backend yields exactly one result per id whose output and step results equal final(shared, fold(step, '
            'init, batches)) for ANY client program; padding clients/batches never observable. CrossHair confirms for all interleavings of '
            'two scripted threads (<=7 scheduling decisions) that each thread sees only its own backend choice, restored on normal and '
            'exceptional exit.',
            'real multi-device semantics only in the concrete replay layer (forced CPU devices); client programs are collective-free pure '
            'functions; thread interleavings at API-call granularity',
            'DESIGN.md C02'),
    'C03': ('X', 'CrossHair symbolic execution of the real client_datasets.py (batch, padded_batch, bucket rule, pad_examples) over a '
                 'list-based numpy model; symbolic row values, dataset size, batch size, bucket count, preprocessor chain',
            'Bounded symbolic check (N<=6, batch<=4, buckets<=3, 3 preprocessor chains incl. an in-place modifier; bucket rule alone N<=40, '
            'batch<=12, buckets<=4): CrossHair reports "Confirmed over all paths" for: unpadded rows = preprocessed examples in order, '
            'full batches except the last, drop_remainder, True-prefix mask, zero padding with unchanged dtype/trailing shape, smallest '
            'bucket, identical second pass, dataset unchanged.',
            'np_lite numpy model (validated against numpy each run); counterexamples are replayed with real numpy',
            'DESIGN.md C03'),
    'C04': ('X', 'CrossHair on the real ShuffleRepeatBatchView over np_lite with an ORACLE TAPE for randomness (shuffle overwrites the '
                 'index buffer with the next symbolic tape segment; never branched on)',
            'Bounded symbolic check (N<=4, batch<=3 and 4..7 with N<=3, epochs None/1/2, steps None/0..4, drop/skip flags): Confirmed over '
            'all paths: exact batch size, documented batch count, the drawn stream equals the concatenation of the tape segments handed '
            'out one per window (hence every window is one shuffle result and usage is balanced), cyclic order without shuffling, same '
            'seed => same stream, also for two interleaved iterators.',
            'numpy.shuffle contract (returns a permutation; deterministic per seed) assumed; statistical quality outside; N>=1',
            'DESIGN.md C04'),
    'C08': ('X', 'CrossHair on the real federated_data/in_memory/sqlite sources over np_lite and a SQL evaluator that interprets the WHERE '
                 'clause as written; client ids as order-type representatives, slice bounds and subset bits symbolic',
            'Bounded symbolic check (3 clients, <=2 view operations, nested slices on 2 clients): Confirmed over all paths that in-memory, '
            'SQLite, subset(in-memory), subset(SQLite) views expose exactly the ids of every requested range/subset (possibly none), same '
            'count/sizes/examples through clients(), shuffled passes, get_clients (request order), get_client; KeyError outside; '
            'preprocessors in registration order (client before batch); base unchanged.',
            'SQL model and np_lite validated against sqlite3/numpy each run (ids a, a\\x00, ab); counterexamples replayed on a real '
            'SQLite file with bytes ids; zlib/msgpack outside (C16)',
            'DESIGN.md C08'),
    'C09': ('X', 'CrossHair on the real run_federated_experiment / checkpoint / save_state sources over a crash-injecting file-system '
                 'model; crash indices and partial-write length symbolic; replay on a real temporary directory',
            'Bounded symbolic check (rounds<=3, checkpoint frequency 0..3, keep 1..2, eval frequency 0..2; 1 or 2 crashes at ANY effect or '
            'loop step, then completion): Confirmed over all paths that the re-run returns the state and final-evaluation file of the '
            'uninterrupted run, every visible checkpoint is complete and equals the reference state of its round, at most `keep` '
            'checkpoints remain after every save.',
            'fs model (atomic rename, durable earlier effects, torn/buffered writes); trace algorithm + model sampler; logging no-ops',
            'DESIGN.md C09'),
    'C11': ('J', 'symbolic execution of the quantisers (min/max as fresh variables with defining facts, bounded floor, uniform draws as '
                 'reals named by key term) and per-coordinate grid/threshold-law/finiteness queries; aggregator keys via observation hooks',
            'Bounded symbolic check (n<=3(4), levels 2..3(5), 2 clients, 2 rounds): z3 shows each uniform/binary output is a neighbouring '
            'grid level selected by the threshold u*(hi-lo) <> v-lo (the law equivalent to E[out]=v), in range, fixed on grid/constant '
            'inputs, finite; TernGrad outputs in {0, +-s} with the same law on the 2.5-sigma clipped input; DRIVE = |x|^2 sign(x)/|x|_1, '
            'finite incl. zero leaves; aggregators return the weighted mean of the per-client quantised trees with pairwise distinct '
            'client keys, fresh keys per round and the documented bit increment.',
            'unbiasedness integral (one uniform variable) outside the solver; arithmetic-coding bit count only in a concrete auxiliary run',
            'DESIGN.md C11'),
    'C13': ('X', 'CrossHair on the real client_samplers.py over a free key algebra for jax.random and a seeded-draw model of '
                 'numpy.RandomState (the permutation behind choice() symbolic per derived seed)',
            'Bounded symbolic check (1..4 clients, every cohort size, rounds from {0,1,2,5} requested in any order with repeats): '
            'Confirmed over all paths that sample() at round r returns the draw of (seed, r) over the dataset ids in dataset order '
            'whatever was sampled before, without repeats, exact ids, pairwise distinct keys, fresh keys per round, restart at r '
            'reproduces the run; the streaming sampler restarted at r equals rounds r.. of the original (seeds 0 and 3).',
            'hash collision-freeness outside; numpy object arrays with trailing-zero ids only in real replays',
            'DESIGN.md C13'),
    'C15': ('X', 'CrossHair on the real padded_batch_client_datasets / buffered_shuffle(_batch_client_datasets) / federated-data stream '
                 'functions / RepeatableIterator over np_lite with symbolic permutations and swap draws',
            'Bounded symbolic check (<=3 clients of 0..3 examples, batch<=3, buckets<=2, streams<=5 items, buffer 1..4): Confirmed over all '
            'paths: unpadded rows = concatenation in client/example order, full batches except the last (bucket rule), ValueError on '
            'mismatching preprocessors/features, buffered shuffle emits every item exactly once for EVERY initial permutation and swap '
            'sequence and is reproducible, non-trivial order reachable, RepeatableIterator replays pass 1 (for-loops and bare next()).',
            'np_lite; a trailing all-padding batch after empty clients is tolerated; statistical quality outside',
            'DESIGN.md C15'),
    'C19': ('X', 'CrossHair on the real downloads.py and the cache branch of cifar100.load_split over fs/network/lzma/SQLite-builder '
                 'models with symbolic crash points and network faults; replay on a real temporary directory',
            'Bounded symbolic check (payload empty / < block / 1 block+100 / 2 blocks+100, 1 or 2 crashes at ANY effect, network fault at '
            'block 0..3): Confirmed over all paths that after every interruption each final cache name is absent or complete, a later '
            'clean call completes, a complete cache (also an empty file) is reused with zero network calls, validate_file accepts only the '
            'right size/hash.',
            'fs model with buffered writers (data < 8 KiB lost on crash before flush), atomic rename; HTTP semantics and sha256 outside',
            'DESIGN.md C19'),
    'C20': ('JX', 'Engine J: symbolic execution of the packaged models\' eval metrics and train_loss against the (C14-checked) metric '
                  'classes instantiated with the DATASET modules\' PAD/BOS/EOS/OOV/VOCAB_SIZE; of cifar100.preprocess_image_tff (real '
                  'source over a numpy->jax.numpy facade) against tf.image.per_image_standardization of the centre crop. Engine X: CrossHair '
                  'on the real Shakespeare tokeniser/look-up table over np_lite and on emnist.domain_id with the parsed number symbolic',
            'Bounded symbolic check: for ALL logits and targets (sequence length 1(2); 90 Shakespeare labels, 7 StackOverflow labels) every '
            'model metric and the training loss equal the metric built from the dataset\'s ids; for ALL pixel values the eval crop (1x1..2x2 '
            '(3x3)) equals (x-mean)/max(std, 1/sqrt(N)) of the centre window; the tokeniser output (<=3 snippets of <=2 bytes incl. OOV '
            'bytes, sequence length 2..4) is the BOS/chars/EOS stream with targets shifted by one, labels < VOCAB_SIZE, tail padding; '
            'every byte maps to its documented label; domain id = 0 iff 2100 <= n <= 2599 for ALL n in 0..9999.',
            'PARTIAL: model row-independence (CNN/LSTM with 10^5..10^6 parameters) and the StackOverflow tokeniser (TensorFlow ops) are not '
            'claimed; training crops only by a concrete enumeration of offsets',
            'DESIGN.md C20'),
}

NOT_APPLICABLE = {
    'C16': 'round-trip correctness is decided inside C extensions (numpy tobytes/frombuffer, msgpack, zlib, pickle, '
           'sqlite3 blobs); CrossHair realises at those boundaries and no IR is available, so a solver-based check '
           'of the real code cannot reach it (DESIGN.md C16)',
}

PENDING = 'check not built yet in this session (planned, see DESIGN.md); not claimed until it runs'


def main():
  ids = [json.loads(l)['id'] for l in open(os.path.join(V, 'properties.jsonl'))]
  checks = []
  for pid in ids:
    if pid not in CLAIMED:
      continue
    eng, tech, text, note, ref = CLAIMED[pid]
    checks.append({
        'property_id': pid,
        'quick_cmd': './check %s --tier quick' % pid,
        'thorough_cmd': './check %s --tier thorough' % pid,
        'evidence_file': '/verif/evidence/%s.json' % pid,
        'replay_cmd_template': './check %s --replay {path}' % pid,
        'engine': 'engine-J' if eng == 'J' else ('engine-X' if eng == 'X' else 'engine-J+X'),
        'level_claimed': {'category': 'model_checking', 'text': text, 'design_ref': ref},
        'level_note': note,
        'technique': tech,
    })
  na = [{'property_id': p, 'reason': NOT_APPLICABLE.get(p, PENDING)} for p in ids if p not in CLAIMED]
  m = {
      'version': 1,
      'setup_cmd': './setup.sh',
      'hooks': {'guard': 'FEDJAX_VERIF', 'enable': 'no source hooks: checks import fedjax from /repo working tree '
                '(PYTHONPATH=/repo) and trace/execute it symbolically; FEDJAX_VERIF=1 is set by ./check but unused',
                'baseline_off_cmd': 'cd /repo && /venv/bin/python -m pytest -ra -q -p no:cacheprovider --timeout=900 '
                '--continue-on-collection-errors', 'source_commits': [], 'add_only': True},
      'engines': [
          {'name': 'engine-J', 'path': 'vf/symjx.py', 'serves_properties': [p for p in ids if p in CLAIMED and CLAIMED[p][0] in ('J', 'JX')],
           'kind_free_text': J},
          {'name': 'engine-X', 'path': 'vf/xh', 'serves_properties': [p for p in ids if p in CLAIMED and CLAIMED[p][0] in ('X', 'JX')],
           'kind_free_text': X},
      ],
      'checks': checks,
      'not_applicable': na,
      'notes': 'Exit codes: 0 held; 1 + VIOLATION line = replay-confirmed violation; 2 = inconclusive (timeout, unknown, '
               'unsupported primitive, non-reproducing model, failed vacuity witness).',
  }
  json.dump(m, open(os.path.join(V, 'MANIFEST.json'), 'w'), indent=1)
  print('claimed', [c['property_id'] for c in checks])


if __name__ == '__main__':
  main()
