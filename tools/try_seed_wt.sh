#!/bin/sh
# usage: try_seed_wt.sh <patch.diff> <tier> <id>...   -- applies the patch in a scratch worktree (never /repo), runs checks with VERIF_REPO
P=$1; T=$2; shift 2
WT=/tmp/tryseed_$$
git -C /repo worktree add --detach $WT HEAD -q || exit 9
git -C $WT apply "$P" || { echo "patch does not apply"; git -C /repo worktree remove --force $WT; exit 9; }
for id in "$@"; do
  VERIF_EVIDENCE_DIR=/tmp/seed_evidence VERIF_REPO=$WT /verif/check $id --tier $T 2>&1 | grep -E "^(VIOLATION|KNOWN|INCONCLUSIVE|$id tier)|what:" | cut -c1-420 | head -8
done
git -C /repo worktree remove --force $WT
