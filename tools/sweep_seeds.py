#!/usr/bin/env python3
"""Re-runs the quick checks against every stored seeded defect (each applied in its own scratch worktree via VERIF_REPO)
and records which check raises a VIOLATION in seeded/<name>/meta.json.   usage: sweep_seeds.py [lanes] [name-prefix ...]"""
import json, os, subprocess, sys, threading, queue, re, shutil
V = '/verif'
lanes = int(sys.argv[1]) if len(sys.argv) > 1 and sys.argv[1].isdigit() else 3
prefixes = [a for a in sys.argv[1:] if not a.isdigit()]
EXTRA = {'C06_m3': ['C17'], 'C10_m1': ['C11'], 'C11_m3': ['C10'], 'C09_m3': ['C10'], 'C01_r2m3': ['C04']}
head = subprocess.check_output(['git', '-C', '/repo', 'rev-parse', '--short', 'HEAD'], text=True).strip()
seeds = sorted(d for d in os.listdir(V + '/seeded') if os.path.exists('%s/seeded/%s/patch.diff' % (V, d)))
if prefixes:
  seeds = [s for s in seeds if any(s.startswith(p) for p in prefixes)]
by_id = {}
for s in seeds:
  by_id.setdefault(s.split('_')[0], []).append(s)
q = queue.Queue()
for pid in sorted(by_id, key=lambda p: -len(by_id[p])):
  q.put(pid)
lock = threading.Lock()

def run_lane(n):
  wt = '/tmp/sweep/%slane%d' % (os.environ.get('SWEEP_TAG', ''), n)
  while True:
    try:
      pid = q.get_nowait()
    except queue.Empty:
      return
    for name in by_id[pid]:
      subprocess.run(['git', '-C', '/repo', 'worktree', 'remove', '--force', wt], capture_output=True)
      shutil.rmtree(wt, ignore_errors=True)
      with lock:
        subprocess.run(['git', '-C', '/repo', 'worktree', 'add', '--detach', wt, 'HEAD', '-q'], check=True)
      metap = '%s/seeded/%s/meta.json' % (V, name)
      meta = json.load(open(metap))
      ap = subprocess.run(['git', '-C', wt, 'apply', '%s/seeded/%s/patch.diff' % (V, name)], capture_output=True, text=True)
      res = {'repo_head': head, 'applies_to_head': ap.returncode == 0, 'detected_by': [], 'runs': {}}
      if ap.returncode == 0:
        for cid in [pid] + EXTRA.get(name, []):
          env = dict(os.environ, VERIF_REPO=wt, VERIF_EVIDENCE_DIR='/tmp/seed_evidence')
          r = subprocess.run([V + '/check', cid, '--tier', 'quick'], env=env, capture_output=True, text=True, cwd=V)
          viol = [l for l in r.stdout.splitlines() if l.startswith('VIOLATION')]
          what = [l.strip()[:300] for l in r.stdout.splitlines() if l.strip().startswith('what:')]
          res['runs'][cid] = {'exit': r.returncode, 'violations': len(viol), 'first': what[:1]}
          if r.returncode == 1 and viol:
            res['detected_by'].append(cid)
      meta['sweep'] = res
      json.dump(meta, open(metap, 'w'), indent=1)
      print(name, 'applies' if res['applies_to_head'] else 'STALE', 'detected_by', res['detected_by'], {k: v['exit'] for k, v in res['runs'].items()}, flush=True)
    subprocess.run(['git', '-C', '/repo', 'worktree', 'remove', '--force', wt], capture_output=True)

os.makedirs('/tmp/sweep', exist_ok=True)
ts = [threading.Thread(target=run_lane, args=(i,)) for i in range(lanes)]
[t.start() for t in ts]
[t.join() for t in ts]
