#!/bin/sh
# Re-runs every quick check against /repo (clean tree) to regenerate /verif/evidence/*.json; J checks in two streams, X checks one at a time.
cd /verif
unset VERIF_REPO VERIF_EVIDENCE_DIR
mkdir -p /tmp/regen
(for i in C01 C10 C12 C07 C18; do ./check $i --tier quick > /tmp/regen/$i.log 2>&1; echo "$i exit $?" >> /tmp/regen/summary; done) &
(for i in C17 C05 C06 C11 C14; do ./check $i --tier quick > /tmp/regen/$i.log 2>&1; echo "$i exit $?" >> /tmp/regen/summary; done) &
(for i in C08 C09 C19 C15 C13 C03 C04 C02 C20; do ./check $i --tier quick > /tmp/regen/$i.log 2>&1; echo "$i exit $?" >> /tmp/regen/summary; done) &
wait
