#!/usr/bin/env python3
"""Confirm a seeded defect: demo passes before / fails after, baseline tests still pass.  Then store under /verif/seeded/<name>/.
usage: confirm_seed.py <src_dir with patch.diff demo.py notes.md> <name> <property id>"""
import json, os, subprocess, sys, shutil, xml.etree.ElementTree as ET
src, name, pid = sys.argv[1:4]
wt = '/tmp/seedchk/' + name
os.makedirs('/tmp/seedchk', exist_ok=True)
subprocess.run(['git', '-C', '/repo', 'worktree', 'remove', '--force', wt], capture_output=True)
subprocess.run(['git', '-C', '/repo', 'worktree', 'add', '--detach', wt, 'HEAD', '-q'], check=True)
env = dict(os.environ, PYTHONPATH=wt, TF_CPP_MIN_LOG_LEVEL='3', JAX_PLATFORMS='cpu')
def demo():
  r = subprocess.run(['/venv/bin/python', os.path.join(src, 'demo.py')], cwd=wt, env=env, capture_output=True, text=True, timeout=900)
  return r.returncode, (r.stdout + r.stderr)[-600:]
meta = {'property': pid, 'name': name}
try:
  rc0, out0 = demo()
  ap = subprocess.run(['git', '-C', wt, 'apply', os.path.join(src, 'patch.diff')], capture_output=True, text=True)
  meta['applies'] = ap.returncode == 0
  rc1, out1 = demo()
  meta['demo_unchanged_rc'] = rc0; meta['demo_changed_rc'] = rc1
  meta['demo_changed_tail'] = out1[-300:]
  jx = '/tmp/seedchk/%s.junit.xml' % name
  subprocess.run(['/venv/bin/python', '-m', 'pytest', '-q', '-p', 'no:cacheprovider', '--timeout=900',
                  '--continue-on-collection-errors', '--junitxml=' + jx], cwd=wt, env=env, capture_output=True, text=True, timeout=3600)
  passed = set()
  for tc in ET.parse(jx).getroot().iter('testcase'):
    if not any(ch.tag in ('failure', 'error', 'skipped') for ch in tc):
      passed.add(tc.get('classname') + '::' + tc.get('name'))
  base = set(json.load(open('/root/.vp/BASELINE.json'))['stable_pass'])
  missing = sorted(base - passed)
  meta['baseline_tests_still_passing'] = len(base) - len(missing); meta['baseline_total'] = len(base)
  meta['baseline_broken'] = missing[:10]
  meta['confirmed'] = bool(meta['applies'] and rc0 == 0 and rc1 != 0 and not missing)
  os.remove(jx)
finally:
  subprocess.run(['git', '-C', '/repo', 'worktree', 'remove', '--force', wt], capture_output=True)
if meta.get('confirmed'):
  dst = '/verif/seeded/' + name
  os.makedirs(dst, exist_ok=True)
  for f in ('patch.diff', 'demo.py', 'notes.md'):
    if os.path.exists(os.path.join(src, f)): shutil.copy(os.path.join(src, f), dst)
  notes = open(os.path.join(src, 'notes.md')).read() if os.path.exists(os.path.join(src, 'notes.md')) else ''
  meta['needs_to_manifest'] = notes[:1500]
  meta['ran'] = ['demo.py on unchanged worktree (rc %d)' % rc0, 'demo.py with patch (rc %d)' % rc1,
                 'baseline pytest with patch: %d/%d stable tests pass' % (meta['baseline_tests_still_passing'], meta['baseline_total'])]
  json.dump(meta, open(os.path.join(dst, 'meta.json'), 'w'), indent=1)
print(json.dumps({k: meta.get(k) for k in ('name', 'confirmed', 'applies', 'demo_unchanged_rc', 'demo_changed_rc', 'baseline_broken')}))
