#!/bin/sh
# polls /tmp/mut/*.out/m* and confirms each seed once (max 4 at a time)
while true; do
  for d in /tmp/mut/*.out/m*; do
    [ -f "$d/patch.diff" ] || continue
    id=$(basename $(dirname $d) .out); m=$(basename $d)
    log=/tmp/seedchk_${id}_$m.log
    [ -f $log ] && continue
    while [ $(pgrep -f confirm_seed.py | wc -l) -ge 4 ]; do sleep 20; done
    ( cd /tmp; /venv/bin/python /verif/tools/confirm_seed.py $d ${id}_$m $id > $log 2>&1 ) &
    sleep 8
  done
  sleep 120
done
